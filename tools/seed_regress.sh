#!/bin/bash
# re-evaluate every seeded change against the quick check of its property (updates seeded/<id>/meta.json)
cd /verif
for d in seeded/C*-*/; do
  s=$(basename $d); p=${s%%-*}
  python3 tools/seed_check.py $s $p 2>&1 | tail -1 | sed "s/^/$s /"
done
