#!/usr/bin/env python3
"""Apply a seeded change to /repo, run checks, undo; record the outcome in seeded/<id>/meta.json.
usage: seed_check.py <seed-dir-name> <property> [check ids...]  (default: the property's own check)"""
import json, subprocess, sys, os, re, time
seed, prop = sys.argv[1], sys.argv[2]
checks = sys.argv[3:] or [prop]
# SEED_CHECK_ALT=<dir>: use a scratch copy of the simulator (<dir>/sim, <dir>/bin, <dir>/known_findings.json)
# so that /verif/bin/exosim and /verif/evidence stay untouched while a long run uses them
ALT = os.environ.get('SEED_CHECK_ALT')
d = f"/verif/seeded/{seed}"
patch = f"{d}/patch.diff"
assert subprocess.run(['git','-C','/repo','status','--porcelain'],capture_output=True,text=True).stdout.strip()=="" , "repo dirty"
subprocess.run(['git','-C','/repo','apply',patch],check=True)
res = {}
try:
    for c in checks:
        t0=time.time()
        if ALT:
            env = dict(os.environ, EXOSIM_VERIF=ALT, GOFLAGS='-mod=mod', GOPROXY='off', GOSUMDB='off', GOTOOLCHAIN='local')
            b = subprocess.run(['go', 'build', '-tags', 'verif', '-o', f'{ALT}/bin/exosim', './cmd/exosim'], cwd=f'{ALT}/sim', env=env, capture_output=True, text=True)
            if not os.path.exists(f'{ALT}/bin/exosim') or 'error' in b.stderr.replace('ld: ', ''):
                print('build trouble', b.stderr[-2000:])
            p = subprocess.run([f'{ALT}/bin/exosim', 'check', '--prop', c, '--tier', 'quick', '--workers', os.environ.get('SEED_CHECK_WORKERS', '8')], capture_output=True, text=True, cwd=ALT, env=env)
        else:
            p = subprocess.run(['/verif/check', c, 'quick'], capture_output=True, text=True, cwd='/verif')
        out = p.stdout
        viol = [l for l in out.splitlines() if l.startswith('violation:')]
        res[c] = {"exit": p.returncode, "violation_classes": [v[len('violation: '):] for v in viol][:6], "wall_s": round(time.time()-t0,1),
                  "summary": [l for l in out.splitlines() if l.startswith('runs=')][:1]}
        print(c, p.returncode, viol[:3])
finally:
    subprocess.run(['git','-C','/repo','checkout','--','.'],check=True)
    # untracked files the patch may have created
    subprocess.run(['git','-C','/repo','clean','-fdq'],check=False)
meta_path = f"{d}/meta.json"
meta = json.load(open(meta_path)) if os.path.exists(meta_path) else {}
meta.setdefault("property", prop)
meta["checks_run"] = res
meta["detected_by"] = [c for c,v in res.items() if v["exit"]==1]
json.dump(meta, open(meta_path,'w'), indent=1)
# restore evidence files overwritten by the runs on the modified tree
if not ALT:
    subprocess.run(['git','-C','/verif','checkout','--','evidence'],check=False)
    # leave bin/exosim built from the restored tree, not from the seeded one
    subprocess.run(['/verif/check','build'],check=False)
print("detected_by", meta["detected_by"])
