#!/usr/bin/env python3
"""For every repaired defect (known_findings.json 'fixed' list) put the defect back by reverting its
fix: commit in /repo's working tree (nothing is committed), run the quick check of the property that
found it, record whether the violation returns, and restore /repo. Writes seeded/reverts.json.
usage: revert_check.py [commit ...]   (default: every fixed entry)"""
import json, subprocess, sys, re, time

V = '/verif'
d = json.load(open(f'{V}/known_findings.json'))
entries = []
for f in d['fixed']:
    m = re.match(r'fixed: property=(C\d+) ([0-9a-f]{7,}) (.*)', f)
    if m:
        entries.append((m.group(1), m.group(2), m.group(3)))
want = set(sys.argv[1:])
assert subprocess.run(['git', '-C', '/repo', 'status', '--porcelain'], capture_output=True, text=True).stdout.strip() == '', 'repo dirty'
out_path = f'{V}/seeded/reverts.json'
try:
    results = json.load(open(out_path))
except Exception:
    results = {}
for prop, commit, what in entries:
    if want and commit not in want:
        continue
    r = subprocess.run(['git', '-C', '/repo', 'revert', '--no-commit', commit], capture_output=True, text=True)
    if r.returncode != 0:
        subprocess.run(['git', '-C', '/repo', 'revert', '--abort'], capture_output=True)
        subprocess.run(['git', '-C', '/repo', 'reset', '--hard', 'HEAD'], capture_output=True)
        results[commit] = {'property': prop, 'what': what[:160], 'result': 'revert does not apply cleanly (later fixes touch the same lines)'}
        print(prop, commit, 'CONFLICT')
        continue
    t0 = time.time()
    p = subprocess.run([f'{V}/check', prop, 'quick'], capture_output=True, text=True, cwd=V)
    viol = [l[len('violation: '):] for l in p.stdout.splitlines() if l.startswith('violation: ')]
    results[commit] = {'property': prop, 'what': what[:160], 'exit': p.returncode, 'violation_classes': viol[:5],
                       'result': 'violation returns' if p.returncode == 1 else ('build/harness trouble' if p.returncode == 2 else 'NOT detected'),
                       'wall_s': round(time.time() - t0, 1)}
    print(prop, commit, p.returncode, viol[:2])
    subprocess.run(['git', '-C', '/repo', 'reset', '--hard', 'HEAD'], capture_output=True)
    subprocess.run(['git', '-C', '/repo', 'clean', '-fdq'], capture_output=True)
    json.dump(results, open(out_path, 'w'), indent=1)
json.dump(results, open(out_path, 'w'), indent=1)
subprocess.run(['git', '-C', V, 'checkout', '--', 'evidence'], check=False)
subprocess.run([f'{V}/check', 'build'], capture_output=True)
print('done')
