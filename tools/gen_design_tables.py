#!/usr/bin/env python3
"""Regenerate the generated blocks of DESIGN.md (per-property 'as built' rules and numbers from the
evidence files, the seeded-change table from seeded/*/meta.json, the findings lists from
known_findings.json). Usage: python3 tools/gen_design_tables.py"""
import json, glob, os, re

V = '/verif'

def block_asbuilt():
    out = []
    for i in range(1, 21):
        pid = 'C%02d' % i
        f = f'{V}/evidence/{pid}.json'
        if not os.path.exists(f):
            continue
        e = json.load(open(f))
        c = e['coverage']
        out.append(f'**{pid}** ({e["level"]}; last committed evidence: tier {e["tier"]}, {c["evaluations"]} runs, '
                   f'{c.get("distinct_nontrivial", 0)} non-trivial, {c.get("blocks", 0)} blocks, {c.get("txs_delivered", 0)} transactions, '
                   f'{round(e.get("wall_s", 0))} s wall).  ')
        out.append('Rule: ' + c['rule'] + '  ')
        if e.get('assumptions'):
            out.append('Assumptions: ' + '; '.join(e['assumptions']) + '.  ')
        ff = c.get('faults_fired') or {}
        if ff:
            out.append('Faults fired in that batch: ' + ', '.join(f'{k} x{v}' for k, v in sorted(ff.items())) + '.  ')
        kh = c.get('known_findings_hit') or {}
        if kh:
            out.append('Known findings hit: ' + ', '.join(f'{k} x{v}' for k, v in sorted(kh.items())) + '.  ')
        out.append('')
    return '\n'.join(out)

def block_seeded():
    rows = ['| seeded change | property | what it is (one line) | checks run | caught by |', '|---|---|---|---|---|']
    for m in sorted(glob.glob(f'{V}/seeded/*/meta.json')):
        j = json.load(open(m))
        sid = os.path.basename(os.path.dirname(m))
        txt = ''
        mt = os.path.join(os.path.dirname(m), 'meta.txt')
        if os.path.exists(mt):
            for line in open(mt):
                line = line.strip()
                if len(line) > 25 and not set(line) <= set('=-'):
                    txt = line
                    break
        txt = re.sub(r'\s+', ' ', txt)[:150].replace('|', '/')
        rows.append(f'| {sid} | {j.get("property")} | {txt} | {", ".join(j.get("checks_run", {}).keys())} | {", ".join(j.get("detected_by", [])) or "**missed**"} |')
    return '\n'.join(rows)

def block_findings():
    d = json.load(open(f'{V}/known_findings.json'))
    out = ['Open (reported as `KNOWN-FINDING:` by the check of the property, exit 0):', '']
    for f in d['findings']:
        out.append(f'* **{f["id"]}** ({f["property"]}, class `{f["class"]}`): {f["description"]}')
    out += ['', 'Repaired (`fix:` commits in /repo; a fixed entry suppresses nothing):', '']
    for f in d['fixed']:
        out.append('* ' + f[len('fixed: '):] if f.startswith('fixed: ') else '* ' + f)
    return '\n'.join(out)

def block_reverts():
    f = f'{V}/seeded/reverts.json'
    if not os.path.exists(f):
        return ''
    d = json.load(open(f))
    rows = ['| fix reverted | property | defect put back | result of `./check <property> quick` |', '|---|---|---|---|']
    for c, r in d.items():
        res = r['result']
        if r.get('violation_classes'):
            res += ': `' + r['violation_classes'][0][:110].replace('|', '/') + '`'
        rows.append(f'| {c} | {r["property"]} | {r["what"][:140].replace("|", "/")} | {res} |')
    return '\n'.join(rows)

def main():
    p = f'{V}/DESIGN.md'
    s = open(p).read()
    for name, fn in (('asbuilt', block_asbuilt), ('seeded', block_seeded), ('findings', block_findings), ('reverts', block_reverts)):
        b, e = f'<!-- BEGIN GENERATED:{name} -->', f'<!-- END GENERATED:{name} -->'
        if b in s and e in s:
            s = s[:s.index(b) + len(b)] + '\n' + fn() + '\n' + s[s.index(e):]
    open(p, 'w').write(s)

main()
