#!/usr/bin/env python3
"""Regenerates /verif/MANIFEST.json from the table below (kept valid at all times)."""
import json, subprocess
props=[json.loads(l) for l in open('/verif/properties.jsonl')]
ids=[p['id'] for p in props]
COMMON_NOTE=("Trusted base: the consensus stub delivers only what a correct CometBFT could (real tmtypes.ValidatorSet arithmetic, H+2 rule, "
 "votes/evidence only for members of the historical set); the reference model is a reading of the property statement (exact integer/rational arithmetic); "
 "sampling, not proof: a clean batch is evidence over the stated bounds only. Gateway is an EOA holding the configured gateway address (C09/C10: a forwarder contract in a third of the runs); disk is MemDB (clean restarts and crashes inside blocks lose exactly the uncommitted state).")
# id -> (category, technique, text, design_ref, extra_note)
CLAIMED={
 "C15":("exploration","deterministic simulation: seeded block-time schedules (stalls, jumps, boundary-exact times) against the real app, epoch reference model + recorded hook calls",
   "Seeded search over epoch configurations and block-time schedules; every block the real x/epochs state and the recorded calls to the five real subscribers are compared with an executable model of the statement. Right level: the property is a forall over time sequences, which a simulated clock samples cheaply and replayably.","DESIGN.md §8 C15",""),
}
try:
    exec(open('/verif/tools/claimed.py').read())
except FileNotFoundError:
    pass
hooks=subprocess.run(['git','-C','/repo','log','--format=%H %s'],capture_output=True,text=True).stdout.splitlines()
hook_commits=[l.split()[0] for l in hooks if 'verif hook' in l]
checks=[]
for i in ids:
    if i in CLAIMED:
        cat,tech,text,ref,extra=CLAIMED[i]
        checks.append({"property_id":i,"quick_cmd":f"./check {i} quick","thorough_cmd":f"./check {i} thorough",
          "evidence_file":f"/verif/evidence/{i}.json","replay_cmd_template":"./check replay {path}","engine":"exosim",
          "level_claimed":{"category":cat,"text":text,"design_ref":ref},"level_note":(COMMON_NOTE+" "+extra).strip(),"technique":tech})
na=[]
NA_REASON={}
try:
    exec(open('/verif/tools/na.py').read())
except FileNotFoundError:
    pass
for i in ids:
    if i not in CLAIMED:
        na.append({"property_id":i,"reason":NA_REASON.get(i,"applicable to the technique (see DESIGN.md §8) but its check is not built yet in this session; not claimed")})
m={"version":1,"setup_cmd":"cd /verif && ./check build && ./bin/exosim selftest --short",
 "hooks":{"guard":"verif","enable":"go build -tags verif in the harness module /verif/sim (replace github.com/ExocoreNetwork/exocore => /repo)",
   "baseline_off_cmd":"cd /repo && go test -mod=mod -vet=off -count=1 -timeout 25m ./...","source_commits":hook_commits,"add_only":True},
 "engines":[{"name":"exosim","path":"/verif/sim","serves_properties":sorted(CLAIMED),"kind_free_text":"deterministic simulator with fault injection: real ExocoreApp behind ABCI, simulated consensus/mempool/disk, seeded explicit plans, ddmin minimiser, fresh-process replay"}],
 "checks":checks,"not_applicable":na,
 "notes":"All checks share one binary built from /repo's working tree with -tags verif on every invocation (./check). Exit 0 held, 1 VIOLATION (replay verified in a fresh process), 2 harness/build trouble. Known findings: /verif/known_findings.json."}
json.dump(m,open('/verif/MANIFEST.json','w'),indent=1)
print("claimed",sorted(CLAIMED),"na",len(na))
