package main

import (
	"fmt"
	"os"
	"time"

	dbm "github.com/cometbft/cometbft-db"

	"exosim/sim"
)

func main() {
	if len(os.Args) > 1 && os.Args[1] == "smoke" {
		smoke()
		return
	}
	fmt.Println("usage: exosim smoke")
}

func smoke() {
	cfg := sim.BaseConfig(1)
	w := sim.NewWorld(cfg)
	n := sim.NewNode("n0", cfg.ChainID, dbm.NewMemDB())
	t0 := time.Now()
	if err := n.Start(); err != nil {
		panic(err)
	}
	gs, cp, err := w.BuildGenesis(n.App)
	if err != nil {
		panic(err)
	}
	req, _ := w.InitChainRequest(gs, cp)
	res, perr := n.InitChain(req)
	if perr != nil {
		fmt.Println(perr.Error())
		fmt.Println(perr.Stack)
		os.Exit(1)
	}
	c := sim.NewChain(w)
	if err := c.ApplyInit(res); err != nil {
		panic(err)
	}
	fmt.Println("init ok", time.Since(t0), "vals", c.ValSets[1].Size())
	for i := 0; i < 40; i++ {
		hdr := c.NextHeader(13*time.Second, i)
		votes := c.Votes(hdr.Height, nil)
		c.CurHeader = hdr
		if _, p := n.BeginBlock(c.BeginBlockRequest(hdr, votes, nil)); p != nil {
			fmt.Println(p.Error(), p.Stack)
			os.Exit(1)
		}
		eb, p := n.EndBlock(hdr.Height)
		if p != nil {
			fmt.Println(p.Error(), p.Stack)
			os.Exit(1)
		}
		if err := c.ApplyEndBlock(hdr.Height, eb.ValidatorUpdates); err != nil {
			panic(err)
		}
		cr, p := n.Commit()
		if p != nil {
			fmt.Println(p.Error(), p.Stack)
			os.Exit(1)
		}
		c.Committed(hdr, cr.Data)
		fmt.Printf("h=%d t=%s apphash=%x ups=%d\n", hdr.Height, hdr.Time.Format(time.RFC3339), cr.Data[:4], len(eb.ValidatorUpdates))
	}
	fmt.Println("done", time.Since(t0))
}
