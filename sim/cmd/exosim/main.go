package main

import (
	"encoding/json"
	"fmt"
	"os"

	"exosim/sim"
)

func main() {
	if len(os.Args) > 1 {
		switch os.Args[1] {
		case "smoke":
			smoke()
			return
		}
	}
	os.Exit(sim.Main(os.Args[1:]))
}

func smoke() {
	cfg := sim.BaseConfig(1)
	plan := sim.Plan{}
	blk := func(dt int64, ops ...sim.Op) { plan.Blocks = append(plan.Blocks, sim.Block{DtNs: dt * 1000000, Ops: ops}) }
	blk(6000, sim.Op{K: "dep", A: 3, B: 0, Amt: "=500000000"}, sim.Op{K: "del", A: 3, B: 0, C: 3, Amt: "all", N: 1},
		sim.Op{K: "assoc", A: 3, C: 3}, sim.Op{K: "optin", A: 3, D: 0})
	for i := 0; i < 30; i++ {
		blk(13000)
	}
	blk(6000, sim.Op{K: "und", A: 3, B: 0, C: 3, Amt: "%500", N: 2}, sim.Op{K: "ndel", A: 0, C: 1, Amt: "=1000000"})
	for i := 0; i < 30; i++ {
		blk(13000)
	}
	r := sim.NewRun("C11", 1, cfg, plan, nil)
	r.NoPanicGuard = true
	r.Verbose = true
	r.Execute()
	for _, t := range r.Results {
		fmt.Printf("h=%d %s ok=%v code=%d log=%.200s\n", t.Height, t.Op, t.OK, t.Resp.Code, t.Resp.Log)
	}
	for _, b := range r.Chain.Blocks {
		if len(b.ValUpdates) > 0 {
			fmt.Printf("h=%d updates=%d\n", b.Height, len(b.ValUpdates))
		}
	}
	for _, l := range r.Log {
		fmt.Println(l)
	}
	fmt.Println("blocks", r.Stats.Blocks, "aborted", r.Stats.Aborted)
	if r.Viol != nil {
		b, _ := json.MarshalIndent(r.Viol, "", " ")
		fmt.Println(string(b))
	}
	fmt.Println("epoch calls", len(r.EpochCalls), r.SubscriberTypes)
}
