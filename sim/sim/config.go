package sim

import "fmt"

// BaseConfig is a small fixed configuration used by smoke tests and as the starting point of the swarm.
func BaseConfig(seed uint64) Config {
	return Config{
		Seed: seed, ChainID: "exocoretestnet_233-1",
		NOps: 4, NVals: 3, NStakers: 3, NNatives: 2,
		Chains: []uint64{101},
		Assets: []AssetCfg{
			{LzID: 101, Addr: "0xdac17f958d2ee523a2206206994597c13d831ec7", Decimals: 6, PriceDec: 0, Price: "1", Interval: 10, InDogfood: true},
			{LzID: 101, Addr: "0xa0b86991c6218b36c1d19d4a2e9eb0ce3606eb48", Decimals: 8, PriceDec: 2, Price: "250", Interval: 7, InDogfood: true},
		},
		Epochs: []EpochCfg{
			{ID: "day", DurSec: 86400}, {ID: "hour", DurSec: 3600}, {ID: "minute", DurSec: 60}, {ID: "week", DurSec: 604800},
		},
		DogfoodEpoch: "minute", UnbondEpochs: 2, MaxVals: 4, MinSelfDeleg: 0,
		GenPowers: []int64{300, 200, 100, 50, 50, 50, 50},
		SignedWindow: 6, MinSignedPct: 50, JailSec: 30, SlashDowntime: "0.01", SlashDoubleSign: "0.05",
		OracleMaxNonce: 3, MaxSizePrices: 100,
		MintEpoch: "minute", MintReward: "1000000000000000000", DistrEpoch: "minute", CommunityTax: "0.02",
		NoBaseFee: true, BlockMaxGas: -1, BlockSec: 6,
	}
}

func (c Config) String() string { return fmt.Sprintf("%+v", c) }
