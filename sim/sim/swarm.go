package sim

import (
	"fmt"
)

var tokenAddrs = []string{
	"0xdac17f958d2ee523a2206206994597c13d831ec7",
	"0xa0b86991c6218b36c1d19d4a2e9eb0ce3606eb48",
	"0x6b175474e89094c44da98b954eedeac495271d0f",
	"0x2260fac5e5542a773aa44fbcfedf7c193bc2c599",
}

const nstAddr = "0xeeeeeeeeeeeeeeeeeeeeeeeeeeeeeeeeeeeeeeee"

// SwarmOpts steers the per-run configuration generator.
type SwarmOpts struct {
	MinOps, MaxOps int
	WithNST        bool
	EpochSecs      []int64 // candidate dogfood epoch durations
	Mainnet        bool
}

// SwarmConfig draws a run configuration: sizes, parameters and knobs all vary per run.
func SwarmConfig(p *PRNG, o SwarmOpts) Config {
	if o.MaxOps == 0 {
		o.MinOps, o.MaxOps = 2, 5
	}
	if len(o.EpochSecs) == 0 {
		o.EpochSecs = []int64{20, 30, 60}
	}
	c := Config{ChainID: "exocoretestnet_233-1"}
	if o.Mainnet || p.Chance(1, 4) {
		c.ChainID = "exocore_233-1"
	}
	c.NOps = p.Range(o.MinOps, o.MaxOps)
	c.NVals = p.Range(1, c.NOps)
	c.NStakers = p.Range(1, 4)
	c.NNatives = p.Range(1, 3)
	c.Chains = []uint64{101}
	if p.Chance(1, 3) {
		c.Chains = append(c.Chains, 102)
	}
	nAssets := p.Range(1, 3)
	for i := 0; i < nAssets; i++ {
		lz := c.Chains[0]
		if i > 0 && len(c.Chains) > 1 && p.Chance(1, 2) {
			lz = c.Chains[1]
		}
		dec := uint32([]int{6, 8, 18, 0, 2}[p.Intn(5)])
		pdec := int32([]int{0, 2, 8, 18}[p.Intn(4)])
		price := []string{"1", "3", "250", "99999", "1000000000"}[p.Intn(5)]
		if i == 0 {
			// asset 0 carries the genesis stake: keep USD = whole tokens
			dec, pdec, price = uint32([]int{6, 8, 18}[p.Intn(3)]), 0, "1"
		}
		c.Assets = append(c.Assets, AssetCfg{LzID: lz, Addr: tokenAddrs[i], Decimals: dec, PriceDec: pdec, Price: price,
			Interval: uint64(p.Range(3, 12)), InDogfood: i == 0 || p.Chance(2, 3)})
	}
	if o.WithNST && p.Chance(1, 2) {
		c.Assets = append(c.Assets, AssetCfg{LzID: c.Chains[0], Addr: nstAddr, Decimals: 18, NST: true, PriceDec: 0, Price: "2000",
			Interval: uint64(p.Range(3, 12)), InDogfood: p.Chance(1, 2)})
	}
	ed := o.EpochSecs[p.Intn(len(o.EpochSecs))]
	c.Epochs = []EpochCfg{{ID: "day", DurSec: 86400}, {ID: "hour", DurSec: 3600}, {ID: "minute", DurSec: 60}, {ID: "week", DurSec: 604800},
		{ID: "dfe", DurSec: ed}}
	c.DogfoodEpoch = "dfe"
	c.UnbondEpochs = uint32(p.Range(1, 3))
	c.MaxVals = uint32(p.Range(1, 5))
	if int(c.MaxVals) < c.NVals {
		c.MaxVals = uint32(c.NVals)
	}
	c.MinSelfDeleg = int64([]int{0, 0, 1, 10, 100}[p.Intn(5)])
	c.NativeInDogfood = p.Chance(1, 2)
	for i := 0; i < c.NOps; i++ {
		pw := int64([]int{100, 100, 101, 150, 200, 300, 1000}[p.Intn(7)])
		if c.MinSelfDeleg > pw {
			pw = c.MinSelfDeleg
		}
		c.GenPowers = append(c.GenPowers, pw)
		c.Commissions = append(c.Commissions, []string{"0", "0.01", "0.5", "1"}[p.Intn(4)])
	}
	c.SignedWindow = int64(p.Range(3, 8))
	c.MinSignedPct = int64([]int{34, 50, 67}[p.Intn(3)])
	c.JailSec = int64([]int{10, 60, 600}[p.Intn(3)])
	c.SlashDowntime = []string{"0", "0.01", "0.1", "0.5", "1"}[p.Intn(5)]
	c.SlashDoubleSign = []string{"0", "0.05", "0.3", "0.99", "1"}[p.Intn(5)]
	c.OracleMaxNonce = int32(p.Range(1, 4))
	for i := range c.Assets {
		if c.Assets[i].Interval < 2*uint64(c.OracleMaxNonce) {
			c.Assets[i].Interval = 2 * uint64(c.OracleMaxNonce)
		}
	}
	c.MaxSizePrices = int32([]int{3, 5, 100}[p.Intn(3)])
	c.MintEpoch = []string{"dfe", "minute"}[p.Intn(2)]
	c.MintReward = []string{"0", "1", "1000000000000000000", "123456789012345678901"}[p.Intn(4)]
	c.DistrEpoch = []string{"dfe", "minute"}[p.Intn(2)]
	c.CommunityTax = []string{"0", "0.02", "0.5", "1"}[p.Intn(4)]
	c.NoBaseFee = p.Chance(1, 2)
	c.BlockMaxGas = -1
	c.BlockSec = int64(p.Range(1, 8))
	c.ProposerAny = p.Chance(1, 8)
	c.HugeAmounts = p.Chance(1, 8)
	c.FeederSwap = len(c.Assets) >= 2 && p.Chance(1, 3)
	return c
}

func (c Config) Short() string {
	return fmt.Sprintf("ops=%d vals=%d stakers=%d assets=%d unbond=%d maxvals=%d", c.NOps, c.NVals, c.NStakers, len(c.Assets), c.UnbondEpochs, c.MaxVals)
}
