package sim

import (
	"fmt"
)

// LedgerGenOpts steers the shared restaking workload generator.
type LedgerGenOpts struct {
	MinBlocks, MaxBlocks int
	W                    map[string]int // op-kind weights
	OpsPerBlockMax       int
	DowntimeBursts       bool
	Evidence             bool
	EpochJumps           bool
	Restarts             bool
	CheckTx              bool
	Unauthorized         bool // some gateway-only ops from a non-gateway caller
	NonceCollisions      bool // allow equal lz nonces / same-block native undelegations
	MultiOperatorMsgs    bool
	Replays              bool
	BigAmounts           bool
	DirectSlashes        bool // direct calls of the slash entry point with random parameters
	SecondHolder         bool // a simulated second AVS places / lifts holds on pending undelegations
	NSTUpdates           bool // direct native-restaking balance adjustments (when the config has an NST asset)
}

var defaultLedgerWeights = map[string]int{
	"dep": 10, "wd": 4, "del": 10, "und": 8, "assoc": 2, "dissoc": 1,
	"ndel": 3, "nund": 3, "optin": 2, "optout": 1, "setkey": 2, "send": 1, "unjail": 1,
}

func dogfoodEpochSecs(cfg Config) int64 {
	for _, e := range cfg.Epochs {
		if e.ID == cfg.DogfoodEpoch {
			return e.DurSec
		}
	}
	return 60
}

// bigSpecs: "big" amounts are at most 2^80 unless the run is a trigger-allowed run for the known
// integer-overflow findings (cfg.HugeAmounts), in which case they reach 2^255.
func bigSpec(p *PRNG, huge bool) string {
	if huge {
		return []string{"2^64", "2^128", "2^200", "2^255"}[p.Intn(4)]
	}
	return []string{"2^40", "2^64", "2^80"}[p.Intn(3)]
}

func amtSpec(p *PRNG, big bool) string {
	switch p.Intn(12) {
	case 0:
		return "=1"
	case 1:
		return "all"
	case 2:
		return "+1" // just over the base
	case 3:
		if big {
			return bigSpec(p, hugeAmounts)
		}
		return "%999"
	case 4, 5:
		return fmt.Sprintf("%%%d", p.Range(1, 999))
	case 6:
		return "%500"
	default:
		return fmt.Sprintf("%%%d", p.Range(100, 900))
	}
}

func depositSpec(p *PRNG, big bool) string {
	switch p.Intn(10) {
	case 0:
		return "=1"
	case 1:
		if big {
			return bigSpec(p, hugeAmounts)
		}
		return "%10"
	case 2:
		return fmt.Sprintf("=%d", p.Range(2, 1000))
	default:
		return fmt.Sprintf("%%%d", p.Range(10, 5000)) // per-mille of 100 whole tokens
	}
}

// GenLedgerPlan generates a plan over the restaking workload with faults.
// hugeAmounts is set per generated plan from cfg.HugeAmounts (generation is single-threaded per process).
var hugeAmounts bool

func GenLedgerPlan(p *PRNG, cfg Config, o LedgerGenOpts) Plan {
	hugeAmounts = cfg.HugeAmounts
	if o.MaxBlocks == 0 {
		o.MinBlocks, o.MaxBlocks = 25, 70
	}
	if o.OpsPerBlockMax == 0 {
		o.OpsPerBlockMax = 4
	}
	w := o.W
	if w == nil {
		w = defaultLedgerWeights
	}
	kinds := make([]string, 0, len(w))
	for k := range defaultLedgerWeights {
		kinds = append(kinds, k)
	}
	for k := range w {
		if _, ok := defaultLedgerWeights[k]; !ok {
			kinds = append(kinds, k)
		}
	}
	kinds = sortedStrings(kinds)
	weights := make([]int, len(kinds))
	for i, k := range kinds {
		weights[i] = w[k]
	}
	nRefs := cfg.NOps + cfg.NStakers
	nb := p.Range(o.MinBlocks, o.MaxBlocks)
	var plan Plan
	lzNonce := int64(1)
	nextNonce := func() int64 {
		if o.NonceCollisions && p.Chance(1, 6) && lzNonce > 1 {
			return lzNonce - 1 // reuse the previous nonce (e.g. another client chain's counter)
		}
		lzNonce++
		return lzNonce - 1
	}
	epoch := dogfoodEpochSecs(cfg)
	downLeft, downOp := 0, 0
	for bi := 0; bi < nb; bi++ {
		b := Block{DtNs: cfg.BlockSec * 1e9, Prop: p.Intn(8)}
		switch p.Intn(12) {
		case 0:
			b.DtNs = int64(p.Range(0, 999)) * 1e6
		case 1:
			if o.EpochJumps {
				b.DtNs = epoch * int64(p.Range(1, 4)) * 1e9
				b.DtNs += int64(p.Range(0, 1000)) * 1e6
			}
		case 2:
			b.DtNs = epoch*1e9/2 + 1
		}
		// seed the ledger early so later state-relative ops have something to move
		if bi == 0 {
			for s := 0; s < nRefs; s++ {
				if p.Chance(3, 4) {
					b.Ops = append(b.Ops, Op{K: "dep", A: s, B: p.Intn(len(cfg.Assets)), Amt: depositSpec(p, false)})
				}
			}
			for s := 0; s < nRefs; s++ {
				if p.Chance(1, 2) {
					b.Ops = append(b.Ops, Op{K: "del", A: s, B: p.Intn(len(cfg.Assets)), C: p.Intn(cfg.NOps), Amt: "%600", N: nextNonce()})
				}
			}
		}
		nops := p.Intn(o.OpsPerBlockMax + 1)
		for k := 0; k < nops; k++ {
			kind := kinds[p.Weighted(weights)]
			op := Op{K: kind}
			switch kind {
			case "dep":
				op.A, op.B, op.Amt = p.Intn(nRefs), p.Intn(len(cfg.Assets)), depositSpec(p, o.BigAmounts)
				op.D = p.Intn(3)
			case "wd":
				op.A, op.B, op.Amt = p.Intn(nRefs), p.Intn(len(cfg.Assets)), amtSpec(p, o.BigAmounts)
				op.D = p.Intn(3)
			case "del":
				op.A, op.B, op.C, op.Amt, op.N = p.Intn(nRefs), p.Intn(len(cfg.Assets)), p.Intn(cfg.NOps), amtSpec(p, o.BigAmounts), nextNonce()
			case "und":
				op.A, op.B, op.C, op.Amt, op.N = p.Intn(nRefs), p.Intn(len(cfg.Assets)), p.Intn(cfg.NOps), amtSpec(p, false), nextNonce()
				// bias towards existing delegations: operators' own identities delegate to themselves at genesis
				if p.Chance(1, 3) {
					op.A = p.Intn(cfg.NOps)
					op.C = op.A
					op.B = 0
				}
				if op.A == 0 && op.C == 0 && op.B == 0 {
					op.A = 1 // operator 0's genesis self-delegation is left alone
				}
			case "assoc":
				op.A, op.C, op.D = p.Intn(nRefs), p.Intn(cfg.NOps), p.Intn(len(cfg.Chains))
			case "dissoc":
				op.A, op.D = 1+p.Intn(nRefs-1), p.Intn(len(cfg.Chains)) // staker 0 stays associated with operator 0
			case "ndel":
				op.A, op.C, op.Amt = p.Intn(cfg.NNatives), p.Intn(cfg.NOps), depositSpec(p, false)
				if o.MultiOperatorMsgs && p.Chance(1, 4) && cfg.NOps > 1 {
					op.C2, op.Amt2 = (op.C+1+p.Intn(cfg.NOps-1))%cfg.NOps, depositSpec(p, false)
				}
			case "nund":
				op.A, op.C, op.Amt = p.Intn(cfg.NNatives), p.Intn(cfg.NOps), amtSpec(p, false)
				if o.MultiOperatorMsgs && p.Chance(1, 3) && cfg.NOps > 1 {
					op.C2, op.Amt2 = (op.C+1+p.Intn(cfg.NOps-1))%cfg.NOps, amtSpec(p, false)
				}
			case "optin":
				op.A, op.D = p.Intn(cfg.NOps), p.Intn(ConsKeyPool)
				if p.Chance(1, 8) && op.A != 0 {
					op.E = 1 + p.Intn(cfg.NOps) // somebody else's key
				}
			case "optout":
				op.A = 1 + p.Intn(cfg.NOps-1) // operator 0 keeps the validator set non-empty (see DESIGN: stub contract)
			case "setkey":
				op.A, op.D = p.Intn(cfg.NOps), p.Intn(ConsKeyPool)
				if p.Chance(1, 6) && op.A != 0 {
					op.E = 1 + p.Intn(cfg.NOps)
				}
			case "send":
				op.A, op.C, op.Amt = p.Intn(3), p.Intn(3), "=12345"
			case "unjail":
				op.A = p.Intn(cfg.NOps)
			case "dfparams":
				op.A, op.N, op.D = p.Intn(3), int64(p.Range(1, 4)), 0
				if p.Chance(1, 3) {
					op.D = p.Range(cfg.NVals, 5)
				}
			case "replay":
				op.N = int64(p.Intn(1 << 20))
			default:
				op.A, op.B, op.C, op.D = p.Intn(8), p.Intn(4), p.Intn(cfg.NOps), p.Intn(4)
			}
			if o.Unauthorized && p.Chance(1, 15) {
				op.M = 1
			}
			b.Ops = append(b.Ops, op)
			// directed pattern: delegate x then undelegate everything right away (C02 round trip)
			if kind == "del" && p.Chance(1, 4) {
				b.Ops = append(b.Ops, Op{K: "und", A: op.A, B: op.B, C: op.C, Amt: "all", N: nextNonce()})
			}
			// directed pattern: a key replaced twice and an opt-out within one epoch (C07)
			if kind == "setkey" && op.A != 0 && op.E == 0 && p.Chance(1, 4) {
				if p.Chance(1, 2) {
					// back to the genesis key and on to a third one
					b.Ops = append(b.Ops, Op{K: "setkey", A: op.A, D: 0}, Op{K: "setkey", A: op.A, D: (op.D + 1 + p.Intn(ConsKeyPool-1)) % ConsKeyPool})
				} else {
					b.Ops = append(b.Ops, Op{K: "setkey", A: op.A, D: (op.D + 1 + p.Intn(ConsKeyPool-1)) % ConsKeyPool})
				}
				if p.Chance(1, 2) {
					b.Ops = append(b.Ops, Op{K: "optout", A: op.A})
				}
			}
			if o.Replays && p.Chance(1, 12) {
				b.Ops = append(b.Ops, Op{K: "replay", N: int64(p.Intn(1 << 20))})
			}
		}
		// faults
		if o.DowntimeBursts {
			if downLeft > 0 {
				b.Absent = []int{downOp}
				downLeft--
			} else if p.Chance(1, 12) {
				downOp, downLeft = 1+p.Intn(cfg.NOps-1), int(cfg.SignedWindow)+p.Range(0, 3)
			} else if p.Chance(1, 10) {
				b.Absent = []int{1 + p.Intn(cfg.NOps-1)}
			}
		}
		if o.Evidence && p.Chance(1, 12) {
			b.Evid = append(b.Evid, EvSpec{Op: 1 + p.Intn(cfg.NOps-1), Key: p.Intn(3), Back: int64(p.Range(1, 20))})
			if p.Chance(1, 4) { // the same evidence twice
				b.Evid = append(b.Evid, b.Evid[0])
			}
		}
		if o.Restarts && p.Chance(1, 15) {
			b.Restart = true
		}
		if o.CheckTx && len(b.Ops) > 0 && p.Chance(1, 5) {
			b.CheckTx = []int{p.Intn(len(b.Ops))}
		}
		// operator 0 and its genesis self-delegation keep the validator set non-empty: a chain whose
		// last validator leaves halts in CometBFT itself, which no property here is about
		for i := range b.Ops {
			o := &b.Ops[i]
			if o.K == "und" && ((o.A%nRefs)+nRefs)%nRefs == 0 && o.C%cfg.NOps == 0 && o.B%len(cfg.Assets) == 0 {
				o.A = 1
			}
		}
		plan.Blocks = append(plan.Blocks, b)
	}
	return plan
}

// Epilogue appends fault-free blocks spanning n dogfood epochs so queues can drain.
func Epilogue(plan Plan, cfg Config, epochs int) Plan {
	ep := dogfoodEpochSecs(cfg)
	for i := 0; i < epochs; i++ {
		plan.Blocks = append(plan.Blocks, Block{DtNs: ep*1e9 + 1e9})
		plan.Blocks = append(plan.Blocks, Block{DtNs: 1e9})
	}
	for i := 0; i < 12; i++ {
		plan.Blocks = append(plan.Blocks, Block{DtNs: 1e9})
	}
	return plan
}
