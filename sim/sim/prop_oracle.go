package sim

import (
	"fmt"
	"math/big"
	"sort"
	"strings"

	abci "github.com/cometbft/cometbft/abci/types"
	sdk "github.com/cosmos/cosmos-sdk/types"

	oraclekeeper "github.com/ExocoreNetwork/exocore/x/oracle/keeper"
	oracletypes "github.com/ExocoreNetwork/exocore/x/oracle/types"
)

// ---------------------------------------------------------------------------
// C12 — oracle rounds
// ---------------------------------------------------------------------------

type oSub struct {
	detID string
	value string
}

type oRound struct {
	based    uint64
	id       uint64
	closed   bool
	how      string
	subs     map[string][]oSub // validator -> counted submissions
	admitted map[string]int    // validator -> admitted messages
	closedBy int               // identifier of the tx that finalised the round
}

type c12Monitor struct {
	BaseMonitor
	params   oracletypes.Params
	cur      map[uint64]*oRound // feeder -> latest opened round
	prices   map[uint64]map[uint64]string // token -> round id -> price (as first observed)
	powers   map[string]int64
	total    int64
	preNext  map[uint64]uint64
	Finalized int
	Carried   int
	ForceSealed int
	Conflicts int
	silent    bool
}

func (m *c12Monitor) Name() string { return "oracle-rounds" }

// violate reports unless the monitor only serves as the round model of another property's check.
func (m *c12Monitor) violate(r *Run, inv, disc, detail string) {
	if m.silent {
		return
	}
	r.Violate(m.Name(), inv, disc, detail)
}

func (m *c12Monitor) AfterInit(r *Run) {
	ctx := r.Node.DeliverCtx(r.Chain)
	m.params = r.Node.App.OracleKeeper.GetParams(ctx)
	m.cur = map[uint64]*oRound{}
	m.prices = map[uint64]map[uint64]string{}
	m.observePrices(r, ctx, "genesis")
}

func (m *c12Monitor) feeders() []uint64 {
	var ids []uint64
	for i := range m.params.TokenFeeders {
		if i > 0 {
			ids = append(ids, uint64(i))
		}
	}
	return ids
}

func (m *c12Monitor) tokenOf(f uint64) uint64 { return m.params.TokenFeeders[f].TokenID }

// observePrices checks immutability of stored rounds and retention.
func (m *c12Monitor) observePrices(r *Run, ctx sdk.Context, what string) {
	k := r.Node.App.OracleKeeper
	for _, f := range m.feeders() {
		t := m.tokenOf(f)
		next := k.GetNextRoundID(ctx, t)
		if m.prices[t] == nil {
			m.prices[t] = map[uint64]string{}
		}
		stored := 0
		for id := uint64(1); id < next; id++ {
			p, found := k.GetPriceTRRoundID(ctx, t, id)
			if !found {
				continue
			}
			stored++
			if old, ok := m.prices[t][id]; ok {
				if old != p.Price {
					m.violate(r, "final-price-recorded-at-most-once", "price-rewritten", fmt.Sprintf("%s: token %d round %d price changed %s -> %s", what, t, id, old, p.Price))
					return
				}
			} else {
				m.prices[t][id] = p.Price
			}
		}
		if max := int(m.params.MaxSizePrices); max > 0 && stored > max {
			m.violate(r, "at-most-configured-rounds-retained", "retention", fmt.Sprintf("%s: token %d retains %d rounds, configured maximum %d", what, t, stored, max))
			return
		}
		// the newest round must be present (no gap at the head)
		if next > 1 {
			if _, found := k.GetPriceTRRoundID(ctx, t, next-1); !found {
				m.violate(r, "round-ids-advance-without-gaps", "head-missing", fmt.Sprintf("%s: token %d next round id %d but round %d is not stored", what, t, next, next-1))
				return
			}
		}
	}
}

func (m *c12Monitor) AfterBeginBlock(r *Run, ctx sdk.Context) {
	h := ctx.BlockHeight()
	k := r.Node.App.OracleKeeper
	m.powers, m.total = map[string]int64{}, 0
	for _, v := range r.Node.App.StakingKeeper.GetAllExocoreValidators(ctx) {
		m.powers[sdk.ConsAddress(v.Address).String()] = v.Power
		m.total += v.Power
	}
	for _, f := range m.feeders() {
		fd := m.params.TokenFeeders[f]
		bb, id, ok := BasedBlockFor(fd, h)
		if !ok {
			continue
		}
		if c := m.cur[f]; c == nil || c.based != bb {
			if c != nil && !c.closed {
				m.violate(r, "every-round-closes-exactly-once", "never-closed", fmt.Sprintf("height %d: feeder %d round %d (based %d) was never closed before round %d opened", h, f, c.id, c.based, id))
				return
			}
			// a new round opened: all earlier rounds closed exactly once <=> stored next id == its id
			if next := k.GetNextRoundID(ctx, m.tokenOf(f)); next != id {
				m.violate(r, "round-ids-advance-by-one-per-interval", fmt.Sprintf("delta%+d", int64(next)-int64(id)), fmt.Sprintf("height %d: feeder %d opens round %d (based block %d) but the stored next round id is %d", h, f, id, bb, next))
				return
			}
			m.cur[f] = &oRound{based: bb, id: id, subs: map[string][]oSub{}, admitted: map[string]int{}}
		}
	}
	m.observePrices(r, ctx, "begin-block")
}

func (m *c12Monitor) BeforeTx(r *Run, ctx sdk.Context, tx *BuiltTx) {
	m.preNext = map[uint64]uint64{}
	for _, f := range m.feeders() {
		m.preNext[f] = r.Node.App.OracleKeeper.GetNextRoundID(ctx, m.tokenOf(f))
	}
}

func exceeds(p, total int64) bool { return p*3 > total*2 }

func (m *c12Monitor) AfterTx(r *Run, ctx sdk.Context, tx *TxResult) {
	k := r.Node.App.OracleKeeper
	h := ctx.BlockHeight()
	for _, f := range m.feeders() {
		t := m.tokenOf(f)
		next := k.GetNextRoundID(ctx, t)
		pre := m.preNext[f]
		isPrice := tx.Oracle != nil && tx.Oracle.FeederID == f
		c := m.cur[f]
		if isPrice && tx.OK && c != nil && tx.Oracle.BasedBlock == c.based {
			c.subs[tx.Oracle.Validator] = append(c.subs[tx.Oracle.Validator], oSub{tx.Oracle.DetID, tx.Oracle.Price})
		}
		if next == pre {
			continue
		}
		if next != pre+1 {
			m.violate(r, "round-ids-advance-by-one-per-interval", "jump-in-tx", fmt.Sprintf("height %d: tx %s moved next round id of token %d from %d to %d", h, tx.Op, t, pre, next))
			return
		}
		if !isPrice {
			m.violate(r, "final-price-only-with-supermajority", "closed-by-unrelated-tx", fmt.Sprintf("height %d: tx %s (not a submission for feeder %d) advanced its round id", h, tx.Op, f))
			return
		}
		if c == nil || c.closed {
			st := "no-open-round"
			if c != nil {
				st = "already-closed:" + c.how
			}
			m.violate(r, "every-round-closes-exactly-once", st, fmt.Sprintf("height %d: a submission recorded a price for feeder %d although the model has %s (round %+v)", h, f, st, c))
			return
		}
		if c.id != pre {
			m.violate(r, "round-ids-advance-without-gaps", "id-mismatch", fmt.Sprintf("height %d: feeder %d finalised round id %d but the open round is %d", h, f, pre, c.id))
			return
		}
		// supermajority conditions on the counted submissions of this round
		var repPower int64
		agree := map[string]int64{}
		for v, subs := range c.subs {
			repPower += m.powers[v]
			seen := map[string]bool{}
			for _, s := range subs {
				key := s.detID + "|" + s.value
				if !seen[key] {
					seen[key] = true
					agree[key] += m.powers[v]
				}
			}
		}
		if len(agree) > 1 {
			m.Conflicts++
			r.Probe("c12_conflicting_values_in_round")
		}
		if !exceeds(repPower, m.total) {
			m.violate(r, "final-price-only-with-supermajority", "reporters-below-threshold", fmt.Sprintf("height %d: feeder %d round %d finalised with reporters holding %d of %d power", h, f, c.id, repPower, m.total))
			return
		}
		best, bestKey := int64(0), ""
		for _, key := range sortedKeysInt64(agree) {
			if agree[key] > best {
				best, bestKey = agree[key], key
			}
		}
		if !exceeds(best, m.total) {
			m.violate(r, "final-price-only-with-supermajority", "no-agreeing-supermajority", fmt.Sprintf("height %d: feeder %d round %d finalised but the largest agreeing group holds %d of %d power (%v)", h, f, c.id, best, m.total, agree))
			return
		}
		p, found := k.GetPriceTRRoundID(ctx, t, c.id)
		want := bestKey[strings.IndexByte(bestKey, '|')+1:]
		// the recorded price is the median of the reporters' values; with the single deterministic
		// source configured here every reporter's value is the agreed one
		if !found || !sameNumber(p.Price, want) {
			m.violate(r, "recorded-price-is-median-of-reporters", "price", fmt.Sprintf("height %d: feeder %d round %d recorded price %q (found=%v), agreed value %q", h, f, c.id, p.Price, found, want))
			return
		}
		c.closed, c.how, c.closedBy = true, "final-price", tx.Index+1000*tx.Block+1
		m.Finalized++
	}
	m.observePrices(r, ctx, "tx")
}

func sameNumber(a, b string) bool {
	x, ok1 := new(big.Int).SetString(a, 10)
	y, ok2 := new(big.Int).SetString(b, 10)
	if !ok1 || !ok2 {
		return a == b
	}
	return x.Cmp(y) == 0
}

func (m *c12Monitor) AfterEndBlock(r *Run, ctx sdk.Context, res abci.ResponseEndBlock) {
	k := r.Node.App.OracleKeeper
	h := uint64(ctx.BlockHeight())
	valsetChanged := len(res.ValidatorUpdates) > 0
	for _, f := range m.feeders() {
		t := m.tokenOf(f)
		next := k.GetNextRoundID(ctx, t)
		c := m.cur[f]
		// m.preNext holds the value before the last tx; recompute the value before EndBlock
		before := next
		_ = before
		if c == nil {
			continue
		}
		if c.closed {
			if next != c.id+1 {
				m.violate(r, "every-round-closes-exactly-once", "closed-again", fmt.Sprintf("height %d: feeder %d round %d is closed (%s) but the stored next round id is %d", h, f, c.id, c.how, next))
				return
			}
			continue
		}
		windowOver := h-c.based >= uint64(m.params.MaxNonce)
		if windowOver || valsetChanged {
			if next != c.id+1 {
				why := "window-end"
				if !windowOver {
					why = "validator-set-change"
				}
				m.violate(r, "every-round-closes-exactly-once", "not-carried-forward-at-"+why, fmt.Sprintf("height %d: feeder %d round %d (based %d, max nonce %d) should close by carrying the previous price forward (%s) but the stored next round id is %d", h, f, c.id, c.based, m.params.MaxNonce, why, next))
				return
			}
			prev, ok1 := k.GetPriceTRRoundID(ctx, t, c.id-1)
			cur, ok2 := k.GetPriceTRRoundID(ctx, t, c.id)
			if ok1 && ok2 && (prev.Price != cur.Price || prev.Decimal != cur.Decimal) {
				m.violate(r, "carry-forward-keeps-previous-price", "price", fmt.Sprintf("height %d: feeder %d round %d closed without a final price but stores %q with %d decimals, previous %q with %d decimals", h, f, c.id, cur.Price, cur.Decimal, prev.Price, prev.Decimal))
				return
			}
			c.closed = true
			if windowOver {
				c.how = "carried-forward"
				m.Carried++
			} else {
				c.how = "force-sealed"
				m.ForceSealed++
				r.Probe("c12_round_closed_by_validator_set_change")
			}
			continue
		}
		if next != c.id {
			m.violate(r, "every-round-closes-exactly-once", "closed-early", fmt.Sprintf("height %d: feeder %d round %d is still in its window (based %d) but the stored next round id is %d", h, f, c.id, c.based, next))
			return
		}
	}
	m.observePrices(r, ctx, "end-block")
}

// ---------------------------------------------------------------------------
// C13 — admission and counting of submissions
// ---------------------------------------------------------------------------

type c13Monitor struct {
	BaseMonitor
	rounds    *c12Monitor
	preDump   StoreDump
	preMem    string
	preNonce  int64
	preHas    bool
	Admitted  int
	Rejected  int
	NotCounted int
	Forged    int
	perRound  map[string]int
}

func (m *c13Monitor) Name() string { return "oracle-admission" }

var c13Stores = []string{"oracle", "assets", "delegation", "operator", "dogfood", "avs", "bank"}

func nonceOf(r *Run, ctx sdk.Context, validator string, feeder uint64) (int64, bool) {
	n, ok := r.Node.App.OracleKeeper.GetNonce(ctx, validator)
	if !ok {
		return 0, false
	}
	for _, x := range n.NonceList {
		if x.FeederID == feeder {
			return int64(x.Value), true
		}
	}
	return 0, false
}

func (m *c13Monitor) BeforeTx(r *Run, ctx sdk.Context, tx *BuiltTx) {
	if tx.Oracle == nil {
		m.preDump = nil
		return
	}
	m.preDump = r.DumpStores(ctx, c13Stores)
	m.preMem = oraclekeeper.VerifDumpDeliver()
	m.preNonce, m.preHas = nonceOf(r, ctx, tx.Oracle.Validator, tx.Oracle.FeederID)
}

func (m *c13Monitor) AfterTx(r *Run, ctx sdk.Context, tx *TxResult) {
	if tx.Oracle == nil || m.preDump == nil || tx.Note == "replay" {
		return
	}
	o := tx.Oracle
	if m.perRound == nil {
		m.perRound = map[string]int{}
	}
	post := r.DumpStores(ctx, c13Stores)
	postMem := oraclekeeper.VerifDumpDeliver()
	postNonce, postHas := nonceOf(r, ctx, o.Validator, o.FeederID)
	admitted := tx.OK || (m.preHas && postHas && postNonce == m.preNonce+1)
	// predicates (from the statement), evaluated on the state before the transaction
	_, isVal := m.rounds.powers[o.Validator]
	c := m.rounds.cur[o.FeederID]
	h := uint64(ctx.BlockHeight())
	roundOpen := c != nil && !cWasClosedBefore(c, tx) && h > c.based && h-c.based <= uint64(m.rounds.params.MaxNonce)
	nonceOK := m.preHas && int64(o.Nonce) == m.preNonce+1 && o.Nonce <= m.rounds.params.MaxNonce
	sizeOK := o.Size <= 1000
	sigOK := o.SigMode == SigValid
	fail := ""
	switch {
	case !isVal:
		fail = "sender-not-a-current-validator"
	case !sigOK:
		fail = fmt.Sprintf("signature-invalid(mode%d)", o.SigMode)
	case !sizeOK:
		fail = "size-limit-exceeded"
	case !roundOpen:
		fail = "no-open-round"
	case !nonceOK:
		fail = "nonce-not-next-or-above-limit"
	}
	if o.SigMode != SigValid {
		m.Forged++
	}
	if admitted {
		m.Admitted++
		if fail != "" {
			r.Violate(m.Name(), "admitted-only-if-valid-sender-round-nonce-size-signature", fail, fmt.Sprintf("height %d: submission %s (validator %s feeder %d nonce %d size %d sigmode %d; stored nonce %d present=%v; round %+v) was admitted (code %d) although: %s", h, tx.Op, o.Validator, o.FeederID, o.Nonce, o.Size, o.SigMode, m.preNonce, m.preHas, c, tx.Resp.Code, fail))
			return
		}
		key := fmt.Sprintf("%s/%d/%d", o.Validator, o.FeederID, c.id)
		m.perRound[key]++
		if m.perRound[key] > int(m.rounds.params.MaxNonce) {
			r.Violate(m.Name(), "at-most-limit-admitted-per-validator-feeder-round", "limit", fmt.Sprintf("height %d: %d submissions of %s admitted for feeder %d round %d, limit %d", h, m.perRound[key], o.Validator, o.FeederID, c.id, m.rounds.params.MaxNonce))
			return
		}
	} else {
		m.Rejected++
		if diff := m.preDump.Diff(post, nil); len(diff) > 0 {
			r.Violate(m.Name(), "not-admitted-changes-nothing", PrefixClass(diff), fmt.Sprintf("height %d: rejected submission %s (code %d, %s) changed the stores:\n%s", h, tx.Op, tx.Resp.Code, firstN(tx.Resp.Log, 120), fmtDiff(diff, 6)))
			return
		}
		if d := lineDiff(m.preMem, postMem, ""); d != "" {
			r.Violate(m.Name(), "not-admitted-changes-nothing", "in-memory-oracle-state", fmt.Sprintf("height %d: rejected submission %s (code %d, %s) changed the in-memory oracle state:\n%s", h, tx.Op, tx.Resp.Code, firstN(tx.Resp.Log, 120), firstN(d, 1500)))
			return
		}
		return
	}
	// counted?
	if !tx.OK {
		m.NotCounted++
		r.Probe("c13_admitted_not_counted")
		diff := m.preDump.Diff(post, func(store string, key []byte) bool {
			return store == "oracle" && strings.Contains(string(key), o.Validator) // that validator's nonce record
		})
		if len(diff) > 0 {
			r.Violate(m.Name(), "admitted-not-counted-changes-only-the-nonce", PrefixClass(diff), fmt.Sprintf("height %d: submission %s admitted but not counted (code %d, %s) changed more than the validator's nonce:\n%s", h, tx.Op, tx.Resp.Code, firstN(tx.Resp.Log, 120), fmtDiff(diff, 6)))
			return
		}
		if d := lineDiff(m.preMem, postMem, "  filter nonces"); d != "" {
			r.Violate(m.Name(), "admitted-not-counted-changes-only-the-nonce", "in-memory-oracle-state", fmt.Sprintf("height %d: submission %s admitted but not counted (code %d, %s) changed the in-memory oracle state beyond the nonce filter:\n%s", h, tx.Op, tx.Resp.Code, firstN(tx.Resp.Log, 120), firstN(d, 1500)))
		}
		return
	}
	// counted: additional conditions
	cfail := ""
	switch {
	case o.BasedBlock != c.based:
		cfail = "base-block-mismatch"
	case o.SourceID != 1:
		cfail = "source-not-in-rule"
	case int(o.Decimal) != int(m.rounds.params.Tokens[m.rounds.tokenOf(o.FeederID)].Decimal):
		cfail = "decimal-mismatch"
	case o.TsOffset > 5:
		cfail = "timestamp-more-than-5s-ahead"
	}
	if cfail == "" {
		// reports a source round this validator has not yet reported (before this tx)
		subs := c.subs[o.Validator]
		for i, s := range subs {
			if i < len(subs)-1 && s.detID == o.DetID {
				cfail = "source-round-already-reported"
			}
		}
	}
	if cfail != "" {
		r.Violate(m.Name(), "counted-only-if-base-block-rule-decimal-timestamp-new-source-round", cfail, fmt.Sprintf("height %d: submission %s was counted (code 0) although: %s (msg %+v, round %+v)", h, tx.Op, cfail, o, c))
	}
}

// cWasClosedBefore: the c12 monitor's AfterTx runs before this monitor's AfterTx; if the round
// was closed by this very transaction it was open when the transaction arrived.
func cWasClosedBefore(c *oRound, tx *TxResult) bool {
	if !c.closed {
		return false
	}
	return c.closedBy != tx.Index+1000*tx.Block+1
}

func oracleConfig(p *PRNG, tier string) Config {
	c := SwarmConfig(p, SwarmOpts{MinOps: 2, MaxOps: 6, EpochSecs: []int64{20, 30, 60}})
	c.HugeAmounts = false
	c.NVals = p.Range(1, c.NOps)
	if int(c.MaxVals) < c.NVals {
		c.MaxVals = uint32(c.NVals)
	}
	// skewed power splits
	splits := [][]int64{{34, 33, 33}, {67, 33}, {1, 1, 1, 97}, {100, 100, 100, 100}, {50, 30, 20}, {66, 34}, {2, 1}, {40, 30, 20, 10}}
	s := splits[p.Intn(len(splits))]
	for i := range c.GenPowers {
		c.GenPowers[i] = s[i%len(s)]
		if c.MinSelfDeleg > c.GenPowers[i] {
			c.MinSelfDeleg = 0
		}
	}
	return c
}

func init() {
	Register(&PropSpec{
		ID: "C12", Level: "exploration",
		Rule: "case = 1-6 validators with skewed power splits (34/33/33, 67/33, 1/1/1/97, equal, ...), 1-3 feeders with different intervals (>= 2 x max nonce) and max nonce 1-4; per block every operator submits 0..max+1 messages per feeder with agreeing, conflicting, duplicate, late/early (based block +-1, +-interval), other source rounds (in a third of the runs half of the rounds spread the reporters over up to nine source rounds, more than one validator may submit, mostly with one value) and future timestamps, in shuffled order, with replayed bytes, validator-set changes at epoch ends, restarts and CheckTx interleavings; round model from the statement (a round opens per interval; closes exactly once: by a final price only with > 2/3 reporting and > 2/3 agreeing power, else by carrying the previous price forward at window end or validator-set change; ids advance by exactly one; stored prices immutable; retention bound) compared after every tx and block; non-trivial = >= 2 rounds finalised by price AND >= 2 carried forward AND conflicting values seen in a round",
		Assumptions: []string{"a validator counts as reporter of a round iff one of its submissions for that round got DeliverTx code 0 (whether code 0 was deserved is C13's question)", "one deterministic source is configured, so the median of the reporters' values is the agreed value", "validator powers are read from the stored dogfood validator set at the beginning of each block"},
		QuickRuns:   500, ThoroughRuns: 8000,
		GenConfig: oracleConfig,
		GenPlan: func(p *PRNG, cfg Config, tier string) Plan {
			o := OracleGenOpts{ValsetChanges: p.Chance(1, 2), CheckTx: p.Chance(1, 3)} // restarts belong to C14
			if tier == "thorough" {
				o.MinBlocks, o.MaxBlocks = 40, 140
			}
			o.ManySourceRounds = p.Chance(1, 3)
			return GenOraclePlan(p, cfg, o)
		},
		Monitors: func() []Monitor { return []Monitor{&c12Monitor{}} },
		NonTrivial: func(r *Run) bool {
			m := r.Mons[0].(*c12Monitor)
			return m.Finalized >= 2 && m.Carried >= 2 && m.Conflicts > 0
		},
	})
	Register(&PropSpec{
		ID: "C13", Level: "exploration",
		Rule: "C12 workload plus hostile senders: garbage / other-key / missing signatures, no signer info at all with a dummy signature, another key's public key, non-validator (outsider and former-validator) senders, wrong source id, wrong decimal, wrong/repeated/skipped nonces up to max+1, timestamps +4/+5/+6/+7/+60 s, transaction sizes 999/1000/1001/1500 bytes, replayed bytes; for every submission the store digest (oracle, assets, delegation, operator, dogfood, avs, bank) and the in-memory oracle dump are taken before and after: admitted (nonce advanced or code 0) only if the statement's admission predicate holds, not admitted => nothing changed (stores and memory), admitted-but-not-counted => only that validator's nonce changed, counted only if the counting predicate holds, at most max-nonce admissions per validator/feeder/round; non-trivial = >= 5 admitted, >= 5 rejected, >= 1 admitted-not-counted and >= 1 forged signature tried",
		Assumptions: []string{"rejecting a valid submission is recorded as a liveness note, not a violation (the statement's 'only if' direction is the safety claim)", "the in-memory oracle state is observed through the verif-tagged dump hooks"},
		QuickRuns:   500, ThoroughRuns: 8000,
		GenConfig: oracleConfig,
		GenPlan: func(p *PRNG, cfg Config, tier string) Plan {
			o := OracleGenOpts{Hostile: true, ValsetChanges: p.Chance(1, 2), CheckTx: p.Chance(1, 3)}
			if tier == "thorough" {
				o.MinBlocks, o.MaxBlocks = 40, 120
			}
			return GenOraclePlan(p, cfg, o)
		},
		Monitors: func() []Monitor {
			c12 := &c12Monitor{silent: true}
			return []Monitor{c12, &c13Monitor{rounds: c12}}
		},
		NonTrivial: func(r *Run) bool {
			m := r.Mons[1].(*c13Monitor)
			return m.Admitted >= 5 && m.Rejected >= 5 && m.NotCounted >= 1 && m.Forged >= 1
		},
	})
}

var _ = sort.Strings

// lineDiff returns the lines that differ between two dumps, ignoring lines with the given prefix.
func lineDiff(a, b, ignorePrefix string) string {
	al, bl := strings.Split(a, "\n"), strings.Split(b, "\n")
	count := map[string]int{}
	for _, l := range al {
		count[l]++
	}
	for _, l := range bl {
		count[l]--
	}
	var out []string
	for _, l := range al {
		if count[l] > 0 && !(ignorePrefix != "" && strings.HasPrefix(l, ignorePrefix)) {
			out = append(out, "- "+l)
			count[l]--
		}
	}
	for _, l := range bl {
		if count[l] < 0 && !(ignorePrefix != "" && strings.HasPrefix(l, ignorePrefix)) {
			out = append(out, "+ "+l)
			count[l]++
		}
	}
	return strings.Join(out, "\n")
}
