package sim

import (
	sdk "github.com/cosmos/cosmos-sdk/types"
)

// C11 — chain liveness. The oracle is the recover() around every ABCI call of block
// processing (see Run.onPanic) plus the real CometBFT ValidatorSet accepting every update
// list; this monitor adds the bounded-liveness epilogue check.
type c11Monitor struct {
	BaseMonitor
	lastOK     bool
	hostileOps int
}

func (m *c11Monitor) Name() string { return "liveness" }

func (m *c11Monitor) AfterTx(r *Run, ctx sdk.Context, tx *TxResult) {
	if tx.Op.K == "send" {
		m.lastOK = tx.OK
		if !tx.OK && r.curBlock >= len(r.Plan.Blocks)-3 {
			r.Violate(m.Name(), "benign-transfer-succeeds-after-hostile-traffic", errClass(tx), "final benign transfer failed: "+firstN(tx.Resp.Log, 300))
		}
	}
	if !tx.OK {
		m.hostileOps++
	}
}

func c11Plan(p *PRNG, cfg Config, tier string) Plan {
	o := LedgerGenOpts{DowntimeBursts: true, Evidence: true, EpochJumps: true, Restarts: true, Replays: true, Unauthorized: true, BigAmounts: true, CheckTx: true, NonceCollisions: true, MultiOperatorMsgs: true}
	if tier == "thorough" {
		o.MinBlocks, o.MaxBlocks = 40, 140
	}
	o.BigAmounts = p.Chance(2, 3)
	plan := GenLedgerPlan(p, cfg, o)
	if f, ok := extraHostile["oracle"]; ok {
		plan = f(p, cfg, plan)
	}
	if f, ok := extraHostile["avs"]; ok && p.Chance(1, 2) {
		plan = f(p, cfg, plan)
	}
	// registry operations (client chains, tokens with well- and ill-formed oracle info) and parameter
	// updates of every module, as in the C09/C10 workload
	for i := range plan.Blocks {
		if p.Chance(1, 3) {
			plan.Blocks[i].Ops = append(plan.Blocks[i].Ops, registryOp(p))
		}
		if f, ok := extraHostile["params"]; ok && p.Chance(1, 4) {
			plan.Blocks[i] = f(p, cfg, Plan{Blocks: []Block{plan.Blocks[i]}}).Blocks[0]
		}
	}
	plan = Epilogue(plan, cfg, int(cfg.UnbondEpochs)+2)
	// a benign transfer must still work at the very end
	plan.Blocks = append(plan.Blocks, Block{DtNs: 1e9, Ops: []Op{{K: "send", A: 0, C: 1, Amt: "=1"}}})
	return plan
}

// extraHostile lets other files add hostile traffic to C11 plans.
var extraHostile = map[string]func(p *PRNG, cfg Config, plan Plan) Plan{}

func init() {
	Register(&PropSpec{
		ID: "C11", Level: "exploration",
		Rule: "C01 workload with extreme amounts (2^64..2^255, 1 unit, position+1), replays, unauthorised callers, multi-operator messages, equal nonces, downtime slashing, equivocation evidence (also duplicated), epoch jumps, restarts and CheckTx interleavings, followed by a fault-free epilogue of (unbonding epochs + 2) dogfood epochs and a benign transfer; recover() around every BeginBlock/DeliverTx/EndBlock/Commit, every validator-update list fed to the real CometBFT ValidatorSet; non-trivial = the run reached the epilogue with >= 1 slash event or >= 1 rejected operation before it",
		Assumptions: ledgerAssumptions,
		QuickRuns:   700, ThoroughRuns: 12000,
		GenConfig: func(p *PRNG, tier string) Config { return SwarmConfig(p, SwarmOpts{WithNST: false}) },
		GenPlan:   c11Plan,
		Monitors:  func() []Monitor { return []Monitor{&c11Monitor{}} },
		NonTrivial: func(r *Run) bool {
			return r.Stats.Blocks >= len(r.Plan.Blocks) && (r.Stats.Probes["beginblock_slash_event"] > 0 || r.Mons[0].(*c11Monitor).hostileOps > 0)
		},
		PanicsAreViolations: true,
	})
}
