package sim

import (
	"fmt"
	"math/big"
	"strings"

	sdkmath "cosmossdk.io/math"
	abci "github.com/cometbft/cometbft/abci/types"
	sdk "github.com/cosmos/cosmos-sdk/types"
	stakingtypes "github.com/cosmos/cosmos-sdk/x/staking/types"

	assetstypes "github.com/ExocoreNetwork/exocore/x/assets/types"
	operatorkeeper "github.com/ExocoreNetwork/exocore/x/operator/keeper"

	operatortypes "github.com/ExocoreNetwork/exocore/x/operator/types"
)

// C04 — slashing is bounded, proportional, hits only stake at risk, once per event.
type c04Monitor struct {
	BaseMonitor
	prevEnd   *Ledger
	prevSlash map[string]map[string]*operatortypes.OperatorSlashInfo // operator -> slashID -> info
	prices    map[string]priceInfo
	decimals  map[string]int64
	Executed  int
	WithRecs  int
	Repeats   int
	Capped    int
}

func (m *c04Monitor) Name() string { return "slashing" }

func (m *c04Monitor) slashInfos(r *Run, ctx sdk.Context) map[string]map[string]*operatortypes.OperatorSlashInfo {
	out := map[string]map[string]*operatortypes.OperatorSlashInfo{}
	for _, o := range r.W.Ops {
		if mm, err := r.Node.App.OperatorKeeper.AllOperatorSlashInfo(ctx, r.W.DogfoodAVS, o.Addr.String()); err == nil {
			out[o.Addr.String()] = mm
		}
	}
	return out
}

func (m *c04Monitor) readPrices(r *Run, ctx sdk.Context) {
	m.prices, m.decimals = map[string]priceInfo{}, map[string]int64{}
	infos, err := r.Node.App.AssetsKeeper.GetAllStakingAssetsInfo(ctx)
	if err != nil {
		return
	}
	for _, info := range infos {
		id := assetIDOf(info.AssetBasicInfo.LayerZeroChainID, info.AssetBasicInfo.Address)
		m.decimals[id] = int64(info.AssetBasicInfo.Decimals)
		_ = guard("probe", func() {
			pr, _ := r.Node.App.OracleKeeper.GetSpecifiedAssetsPrice(ctx, id)
			if !pr.Value.IsNil() {
				m.prices[id] = priceInfo{val: pr.Value.BigInt(), dec: int64(pr.Decimal)}
			}
		})
	}
}

func (m *c04Monitor) AfterInit(r *Run) {
	ctx := r.Node.DeliverCtx(r.Chain)
	m.prevEnd = r.Ledger(ctx)
	m.prevSlash = m.slashInfos(r, ctx)
	m.readPrices(r, ctx)
}

// verify compares a ledger transition with the slash executions recorded between two
// slash-info snapshots. Everything not explained by them must be unchanged.
func (m *c04Monitor) verify(r *Run, before, after *Ledger, sBefore, sAfter map[string]map[string]*operatortypes.OperatorSlashInfo, height int64, what string) {
	// new slash infos per operator
	type exec struct {
		id   string
		info *operatortypes.OperatorSlashInfo
	}
	newByOp := map[string][]exec{}
	for op, mm := range sAfter {
		for id, info := range mm {
			if _, old := sBefore[op][id]; !old {
				newByOp[op] = append(newByOp[op], exec{id, info})
			}
		}
	}
	// expected state: start from `before`, apply the model for every slashed operator
	expPools := map[string]*big.Int{}
	for k, p := range before.Pools {
		expPools[k] = new(big.Int).Set(p.TotalAmount.BigInt())
	}
	expRecs := map[string]*big.Int{}
	for k, rec := range before.Records {
		expRecs[k] = new(big.Int).Set(rec.ActualCompletedAmount.BigInt())
	}
	for _, op := range sortedKeysAny(newByOp) {
		execs := newByOp[op]
		if len(execs) != 1 {
			// several executions for one operator in one step: the intermediate states are not
			// observable, only the generic "nothing increases / others untouched" rules apply
			r.Probe("c04_multiple_executions_one_step")
			for k := range expPools {
				if strings.HasPrefix(k, op+"/") {
					expPools[k] = nil
				}
			}
			for k, rec := range before.Records {
				if rec.OperatorAddr == op {
					expRecs[k] = nil
				}
			}
			continue
		}
		e := execs[0]
		m.Executed++
		ei := e.info.ExecutionInfo
		if ei == nil {
			r.Violate(m.Name(), "execution-recorded", "nil-execution-info", fmt.Sprintf("%s: slash %s of %s has no execution info", what, e.id, op))
			return
		}
		// total USD value over all pools including unbonding stake, at current prices
		usd := new(big.Int) // x 1e18
		priced := true
		for _, k := range sortedKeysAny(before.Pools) {
			if !strings.HasPrefix(k, op+"/") {
				continue
			}
			a := k[len(op)+1:]
			pr, ok := m.prices[a]
			if !ok || pr.val == nil {
				priced = false
				break
			}
			p := before.Pools[k]
			amt := new(big.Int).Add(p.TotalAmount.BigInt(), p.PendingUndelegationAmount.BigInt())
			div := new(big.Int).Exp(big.NewInt(10), big.NewInt(m.decimals[a]+pr.dec), nil)
			usd.Add(usd, truncDec18(new(big.Rat).SetFrac(new(big.Int).Mul(amt, pr.val), div)))
		}
		if !priced || usd.Sign() == 0 {
			r.Probe("c04_unpriced_or_zero_value_operator")
			for k := range expPools {
				if strings.HasPrefix(k, op+"/") {
					expPools[k] = nil
				}
			}
			for k, rec := range before.Records {
				if rec.OperatorAddr == op {
					expRecs[k] = nil
				}
			}
			continue
		}
		// p = min(1, slashValue / usd), 18 digits, round half even
		pq := roundDec18(new(big.Rat).SetFrac(ei.SlashValue.BigInt(), usd))
		if pq.Cmp(ten18) > 0 {
			pq = new(big.Int).Set(ten18)
			m.Capped++
			r.Probe("c04_proportion_capped_at_100_percent")
		}
		if ei.SlashProportion.IsNegative() || ei.SlashProportion.GT(sdkmath.LegacyOneDec()) {
			r.Violate(m.Name(), "proportion-within-0-and-1", "range", fmt.Sprintf("%s: slash %s of %s executed with proportion %s", what, e.id, op, ei.SlashProportion))
			return
		}
		if ei.SlashProportion.BigInt().Cmp(pq) != 0 {
			r.Violate(m.Name(), "proportion-is-power-times-factor-over-current-value", "proportion", fmt.Sprintf("%s: slash %s of %s: executed proportion %s, model %s (slash value %s, operator value %s)", what, e.id, op, ei.SlashProportion, decStr(pq), ei.SlashValue, decStr(usd)))
			return
		}
		mul := func(amount *big.Int) *big.Int {
			x := new(big.Int).Mul(pq, amount)
			return x.Quo(x, ten18)
		}
		for k := range expPools {
			if strings.HasPrefix(k, op+"/") {
				expPools[k].Sub(expPools[k], mul(before.Pools[k].TotalAmount.BigInt()))
			}
		}
		nrec := 0
		for k, rec := range before.Records {
			if rec.OperatorAddr != op || int64(rec.BlockNumber) < e.info.EventHeight || e.info.EventHeight >= height {
				continue
			}
			cut := mul(rec.Amount.BigInt())
			if cut.Cmp(expRecs[k]) > 0 {
				cut = new(big.Int).Set(expRecs[k])
			}
			expRecs[k].Sub(expRecs[k], cut)
			nrec++
		}
		if nrec > 0 {
			m.WithRecs++
			r.Probe("c04_pending_undelegation_slashed")
		}
		// recorded execution equals the actual reductions
		recPool := map[string]*big.Int{}
		for _, s := range ei.SlashAssetsPool {
			if recPool[s.AssetID] == nil {
				recPool[s.AssetID] = new(big.Int)
			}
			recPool[s.AssetID].Add(recPool[s.AssetID], s.Amount.BigInt())
		}
		for k, p := range before.Pools {
			if !strings.HasPrefix(k, op+"/") {
				continue
			}
			a := k[len(op)+1:]
			ap, ok := after.Pools[k]
			if !ok {
				continue
			}
			actual := new(big.Int).Sub(p.TotalAmount.BigInt(), ap.TotalAmount.BigInt())
			rp := recPool[a]
			if rp == nil {
				rp = new(big.Int)
			}
			if actual.Cmp(rp) != 0 {
				r.Violate(m.Name(), "recorded-execution-equals-actual-reductions", "pool", fmt.Sprintf("%s: slash %s: pool %s reduced by %s but execution records %s", what, e.id, k, actual, rp))
				return
			}
		}
		recUnd := new(big.Int)
		for _, s := range ei.SlashUndelegations {
			recUnd.Add(recUnd, s.Amount.BigInt())
		}
		actUnd := new(big.Int)
		for k, rec := range before.Records {
			if rec.OperatorAddr == op {
				if ar, ok := after.Records[k]; ok {
					actUnd.Add(actUnd, new(big.Int).Sub(rec.ActualCompletedAmount.BigInt(), ar.ActualCompletedAmount.BigInt()))
				}
			}
		}
		if recUnd.Cmp(actUnd) != 0 {
			r.Violate(m.Name(), "recorded-execution-equals-actual-reductions", "undelegations", fmt.Sprintf("%s: slash %s: pending undelegations reduced by %s but execution records %s", what, e.id, actUnd, recUnd))
			return
		}
	}
	// compare
	for _, k := range sortedKeysAny(before.Pools) {
		ap, ok := after.Pools[k]
		if !ok {
			r.Violate(m.Name(), "nothing-else-changes", "pool-removed", fmt.Sprintf("%s: pool %s disappeared", what, k))
			return
		}
		if ap.TotalAmount.GT(before.Pools[k].TotalAmount) {
			r.Violate(m.Name(), "no-balance-increases", "pool", fmt.Sprintf("%s: pool %s grew %s -> %s", what, k, before.Pools[k].TotalAmount, ap.TotalAmount))
			return
		}
		if exp := expPools[k]; exp != nil && ap.TotalAmount.BigInt().Cmp(exp) != 0 {
			r.Violate(m.Name(), "each-pool-reduced-by-floor-p-times-pool", "pool", fmt.Sprintf("%s: pool %s is %s after the step, model %s (before %s)", what, k, ap.TotalAmount, exp, before.Pools[k].TotalAmount))
			return
		}
	}
	for _, k := range before.RecOrder {
		ar, ok := after.Records[k]
		if !ok {
			continue // completion is C03's business; BeginBlock never removes records
		}
		if ar.ActualCompletedAmount.GT(before.Records[k].ActualCompletedAmount) {
			r.Violate(m.Name(), "no-balance-increases", "record", fmt.Sprintf("%s: record %s payout grew", what, k))
			return
		}
		if exp := expRecs[k]; exp != nil && ar.ActualCompletedAmount.BigInt().Cmp(exp) != 0 {
			d := "record-at-risk"
			if len(newByOp[before.Records[k].OperatorAddr]) == 1 && int64(before.Records[k].BlockNumber) < newByOp[before.Records[k].OperatorAddr][0].info.EventHeight {
				d = "record-started-before-infraction"
			}
			r.Violate(m.Name(), "undelegations-reduced-by-p-of-original-only-if-started-at-or-after-infraction", d, fmt.Sprintf("%s: record %s (started %d, amount %s) pays %s after the step, model %s (before %s)", what, k, before.Records[k].BlockNumber, before.Records[k].Amount, ar.ActualCompletedAmount, exp, before.Records[k].ActualCompletedAmount))
			return
		}
	}
	for _, k := range sortedKeysAny(before.Stakers) {
		if as, ok := after.Stakers[k]; ok && !as.WithdrawableAmount.Equal(before.Stakers[k].WithdrawableAmount) {
			r.Violate(m.Name(), "nothing-else-changes", "withdrawable", fmt.Sprintf("%s: withdrawable balance of %s changed %s -> %s", what, k, before.Stakers[k].WithdrawableAmount, as.WithdrawableAmount))
			return
		}
	}
}

func (m *c04Monitor) AfterBeginBlock(r *Run, ctx sdk.Context) {
	cur := r.Ledger(ctx)
	sl := m.slashInfos(r, ctx)
	m.verify(r, m.prevEnd, cur, m.prevSlash, sl, ctx.BlockHeight(), "begin-block")
	m.prevSlash = sl
}

func (m *c04Monitor) AfterCommit(r *Run, ctx sdk.Context) {}

func (m *c04Monitor) snapshotEnd(r *Run, ctx sdk.Context) {
	m.prevEnd = r.Ledger(ctx)
	m.prevSlash = m.slashInfos(r, ctx)
	m.readPrices(r, ctx)
}

func init() {
	// kslash: direct call of the slash entry point the dogfood staking interface exposes.
	// A operator, N power, S factor, E infraction height back-offset, D infraction type, M==1: repeat the previous call
	directOps["kslash"] = func(r *Run, ctx sdk.Context, op Op) {
		var m *c04Monitor
		for _, x := range r.Mons {
			if mm, ok := x.(*c04Monitor); ok {
				m = mm
			}
		}
		if m == nil {
			o := r.W.Op(op.A)
			inf := ctx.BlockHeight() - int64(op.E)
			if inf < 0 {
				inf = 0
			}
			factor, err := sdkmath.LegacyNewDecFromStr(op.S)
			if err != nil {
				factor = sdkmath.LegacyNewDecWithPrec(5, 2)
			}
			power := op.N
			if power <= 0 {
				power = 1
			}
			if perr := guard("SlashWithInfractionReason", func() {
				r.Node.App.OperatorKeeper.SlashWithInfractionReason(ctx, o.Addr, inf, power, factor, infractionOf(op.D))
			}); perr != nil {
				r.abort("panic:direct-slash:" + PanicDisc(perr))
			}
			return
		}
		o := r.W.Op(op.A)
		h := ctx.BlockHeight()
		inf := h - int64(op.E)
		if inf < 0 {
			inf = 0
		}
		factor, err := sdkmath.LegacyNewDecFromStr(op.S)
		if err != nil {
			factor = sdkmath.LegacyNewDecWithPrec(5, 2)
		}
		power := op.N
		if power <= 0 {
			power = 1
		}
		before := r.Ledger(ctx)
		sBefore := m.slashInfos(r, ctx)
		m.readPrices(r, ctx)
		dBefore := r.DumpStores(ctx, []string{"assets", "delegation", "operator"})
		_, dup := sBefore[o.Addr.String()][slashIDFor(op.D, inf)]
		perr := guard("SlashWithInfractionReason", func() {
			r.Node.App.OperatorKeeper.SlashWithInfractionReason(ctx, o.Addr, inf, power, factor, infractionOf(op.D))
		})
		if perr != nil {
			r.Violate(m.Name(), "slash-executes-without-panic", PanicDisc(perr), fmt.Sprintf("SlashWithInfractionReason(operator %d, infraction height %d, power %d, factor %s) panicked: %v\n%s", op.A, inf, power, factor, perr.Value, trimStack(perr.Stack)))
			return
		}
		r.curOp++ // new observation point for the ledger cache
		r.phase = "AfterDirectCall"
		after := r.Ledger(ctx)
		sAfter := m.slashInfos(r, ctx)
		if dup {
			m.Repeats++
			r.Probe("c04_slash_id_presented_again")
			dAfter := r.DumpStores(ctx, []string{"assets", "delegation", "operator"})
			if diff := dBefore.Diff(dAfter, nil); len(diff) > 0 {
				r.Violate(m.Name(), "same-slash-id-again-has-no-effect", "state-changed", fmt.Sprintf("stores changed: "+PrefixClass(diff)+"; slash id %s for operator %d presented again changed state:\n%s", slashIDFor(op.D, inf), op.A, fmtDiff(diff, 8)))
			}
			return
		}
		m.verify(r, before, after, sBefore, sAfter, h, "direct-call")
	}
}

func (m *c04Monitor) AfterEndBlock(r *Run, ctx sdk.Context, _ abci.ResponseEndBlock) { m.snapshotEnd(r, ctx) }

func assetIDOf(lz uint64, addr string) string {
	_, id := assetstypes.GetStakerIDAndAssetIDFromStr(lz, "", addr)
	return id
}

func infractionOf(d int) stakingtypes.Infraction {
	if d%2 == 0 {
		return stakingtypes.Infraction_INFRACTION_DOWNTIME
	}
	return stakingtypes.Infraction_INFRACTION_DOUBLE_SIGN
}

func slashIDFor(d int, h int64) string { return operatorkeeper.GetSlashIDForDogfood(infractionOf(d), h) }

func c04Plan(p *PRNG, cfg Config, tier string) Plan {
	o := LedgerGenOpts{DowntimeBursts: true, Evidence: true, EpochJumps: true, Restarts: true,
		W: map[string]int{"dep": 8, "wd": 2, "del": 10, "und": 10, "assoc": 2, "dissoc": 1, "ndel": 2, "nund": 2, "optin": 2, "optout": 1, "setkey": 1, "unjail": 2, "kslash": 6}}
	if tier == "thorough" {
		o.MinBlocks, o.MaxBlocks = 40, 140
	}
	plan := GenLedgerPlan(p, cfg, o)
	factors := []string{"0", "0.000000000000000001", "0.01", "0.05", "0.5", "0.99", "1"}
	for bi := range plan.Blocks {
		for oi := range plan.Blocks[bi].Ops {
			op := &plan.Blocks[bi].Ops[oi]
			if op.K != "kslash" {
				continue
			}
			op.A = 1 + p.Intn(cfg.NOps-1) // operator 0 keeps the validator set alive
			op.N = int64([]int{1, 10, 100, 1000, 100000}[p.Intn(5)])
			op.S = factors[p.Intn(len(factors))]
			op.E = p.Intn(15)
			op.D = p.Intn(2)
		}
		// present the same slash again (same block => same infraction height and id)
		for oi := 0; oi < len(plan.Blocks[bi].Ops); oi++ {
			if op := plan.Blocks[bi].Ops[oi]; op.K == "kslash" && p.Chance(1, 3) {
				plan.Blocks[bi].Ops = append(plan.Blocks[bi].Ops, op)
				break
			}
		}
		if p.Chance(1, 4) {
			plan.Blocks[bi].Ops = append(plan.Blocks[bi].Ops, PriceRound(cfg.NOps, 1+p.Intn(len(cfg.Assets)), []string{"1", "3", "250", "99999"}[p.Intn(4)])...)
		}
	}
	return Epilogue(plan, cfg, int(cfg.UnbondEpochs)+1)
}

func init() {
	Register(&PropSpec{
		ID: "C04", Level: "exploration",
		Rule: "C01 workload with randomised slash fractions (0..1) where slashes arrive (a) through the real x/slashing downtime and x/evidence equivocation paths in BeginBlock and (b) through direct calls of the dogfood staking interface's slash entry point on the block's deliver context with arbitrary power, factor (0, 1e-18 .. 1), infraction height (0-14 blocks back) and repeated slash identifiers, with prices moved by oracle rounds; for every executed slash the model recomputes p = min(1, slash value / current USD value incl. unbonding) and every pool and at-risk pending undelegation in exact integers, checks that nothing else moved and that the recorded execution equals the observed reductions, and that a repeated identifier leaves the assets/delegation/operator stores byte-identical; non-trivial = >= 2 slashes executed, >= 1 hit a pending undelegation, >= 1 repeated identifier",
		Assumptions: append([]string{"direct calls use the exported keeper entry point that the dogfood module calls from BeginBlock (the statement names it as an observation point)"}, ledgerAssumptions...),
		QuickRuns:   600, ThoroughRuns: 10000,
		GenConfig: func(p *PRNG, tier string) Config {
			c := SwarmConfig(p, SwarmOpts{})
			c.HugeAmounts = false
			return c
		},
		GenPlan:  c04Plan,
		Monitors: func() []Monitor { return []Monitor{&c04Monitor{}} },
		NonTrivial: func(r *Run) bool {
			m := r.Mons[0].(*c04Monitor)
			return m.Executed >= 2 && m.WithRecs >= 1 && m.Repeats >= 1
		},
	})
}

