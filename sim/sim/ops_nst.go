package sim

import (
	"math/big"

	sdkmath "cosmossdk.io/math"
	sdk "github.com/cosmos/cosmos-sdk/types"
)

// NSTUpdate is the outcome of the last direct native-restaking balance adjustment.
type NSTUpdate struct {
	StakerID, AssetID string
	Amount            *big.Int // signed adjustment that was requested
	Err               error
}

func init() {
	// nstupd: direct call of the native-restaking balance adjustment (the entry point the oracle
	// calls when a balance-change round of an NST feeder is finalised).
	// A staker ref, Amt magnitude relative to the staker's recorded total deposit, M==1: negative.
	directOps["nstupd"] = func(r *Run, ctx sdk.Context, op Op) {
		r.LastNST = nil
		w := r.W
		ai := -1
		for i, a := range w.Cfg.Assets {
			if a.NST {
				ai = i
			}
		}
		if ai < 0 {
			return
		}
		a := w.Cfg.Assets[ai]
		stakerID, assetID := w.StakerIDFor(op.A, a.LzID), w.AssetIDs[ai]
		base := new(big.Int)
		if info, err := r.Node.App.AssetsKeeper.GetStakerSpecifiedAssetInfo(ctx, stakerID, assetID); err == nil && info != nil {
			base = info.TotalDepositAmount.BigInt()
		}
		amt := ResolveAmt(op.Amt, base)
		if amt.BitLen() > 200 {
			return
		}
		if op.M == 1 {
			amt = new(big.Int).Neg(amt)
		}
		up := &NSTUpdate{StakerID: stakerID, AssetID: assetID, Amount: amt}
		cc, write := ctx.CacheContext()
		perr := guard("UpdateNSTBalance", func() {
			up.Err = r.Node.App.DelegationKeeper.UpdateNSTBalance(cc, stakerID, assetID, sdkmath.NewIntFromBigInt(amt))
		})
		if perr != nil {
			r.abort("panic:direct-nst-update:" + PanicDisc(perr))
			return
		}
		if up.Err == nil {
			write()
			r.Fault("nst_balance_adjustment")
		}
		r.LastNST = up
		r.curOp++ // new observation point for the ledger cache
	}
}

func init() {
	// hold / unhold: a second AVS module places / lifts a hold on a pending undelegation through
	// the delegation keeper's public hold-count API (the dogfood module is the only holder the
	// application itself has). N selects the record (hold) or the held record (unhold).
	directOps["hold"] = func(r *Run, ctx sdk.Context, op Op) {
		l := r.Ledger(ctx)
		if len(l.RecOrder) == 0 {
			return
		}
		k := l.RecOrder[int(uint64(op.N)%uint64(len(l.RecOrder)))]
		if err := r.Node.App.DelegationKeeper.IncrementUndelegationHoldCount(ctx, []byte(k)); err != nil {
			return
		}
		if r.ExtraHolds == nil {
			r.ExtraHolds = map[string]uint64{}
		}
		r.ExtraHolds[k]++
		r.Fault("second_holder_hold")
		r.curOp++
	}
	directOps["unhold"] = func(r *Run, ctx sdk.Context, op Op) {
		var keys []string
		for k, n := range r.ExtraHolds {
			if n > 0 {
				keys = append(keys, k)
			}
		}
		if len(keys) == 0 {
			return
		}
		keys = sortedStrings(keys)
		if op.M == 1 { // release everything (epilogue)
			for _, k := range keys {
				for r.ExtraHolds[k] > 0 {
					if err := r.Node.App.DelegationKeeper.DecrementUndelegationHoldCount(ctx, []byte(k)); err != nil {
						r.ReleaseErr = append(r.ReleaseErr, k+": "+err.Error())
					}
					r.ExtraHolds[k]--
				}
			}
			r.curOp++
			return
		}
		k := keys[int(uint64(op.N)%uint64(len(keys)))]
		if err := r.Node.App.DelegationKeeper.DecrementUndelegationHoldCount(ctx, []byte(k)); err != nil {
			r.ReleaseErr = append(r.ReleaseErr, k+": "+err.Error())
		}
		r.ExtraHolds[k]--
		r.curOp++
	}
}
