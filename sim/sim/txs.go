package sim

import (
	"fmt"
	"math/big"

	sdkmath "cosmossdk.io/math"
	"github.com/cosmos/cosmos-sdk/client"
	clienttx "github.com/cosmos/cosmos-sdk/client/tx"
	codectypes "github.com/cosmos/cosmos-sdk/codec/types"
	"github.com/cosmos/cosmos-sdk/crypto/keys/ed25519"
	cryptotypes "github.com/cosmos/cosmos-sdk/crypto/types"
	sdk "github.com/cosmos/cosmos-sdk/types"
	txtypes "github.com/cosmos/cosmos-sdk/types/tx"
	"github.com/cosmos/cosmos-sdk/types/tx/signing"
	authsigning "github.com/cosmos/cosmos-sdk/x/auth/signing"
	authtx "github.com/cosmos/cosmos-sdk/x/auth/tx"
	"github.com/ethereum/go-ethereum/common"
	ethtypes "github.com/ethereum/go-ethereum/core/types"
	evmtypes "github.com/evmos/evmos/v16/x/evm/types"

	testutiltx "github.com/ExocoreNetwork/exocore/testutil/tx"
	"github.com/ExocoreNetwork/exocore/utils"
	oracletypes "github.com/ExocoreNetwork/exocore/x/oracle/types"
)

func TxConfig() client.TxConfig { return EncCfg.TxConfig }

// CosmosTx builds and signs a cosmos transaction (SIGN_MODE_DIRECT).
func CosmosTx(chainID string, priv cryptotypes.PrivKey, accNum, seq uint64, gas uint64, feeAmt sdkmath.Int, msgs ...sdk.Msg) ([]byte, error) {
	return CosmosTxMut(chainID, priv, accNum, seq, gas, feeAmt, nil, msgs...)
}

// CosmosTxMut is CosmosTx with a hook that may rewrite the protobuf transaction (e.g. the raw bytes
// of a message, to produce encodings the generated marshaller never emits) BEFORE it is signed.
func CosmosTxMut(chainID string, priv cryptotypes.PrivKey, accNum, seq uint64, gas uint64, feeAmt sdkmath.Int, mutate func(*txtypes.Tx), msgs ...sdk.Msg) ([]byte, error) {
	cfg := TxConfig()
	b := cfg.NewTxBuilder()
	b.SetGasLimit(gas)
	b.SetFeeAmount(sdk.Coins{sdk.NewCoin(utils.BaseDenom, feeAmt)})
	if err := b.SetMsgs(msgs...); err != nil {
		return nil, err
	}
	if mutate != nil {
		pt, ok := b.(interface{ GetProtoTx() *txtypes.Tx })
		if !ok {
			return nil, fmt.Errorf("tx builder does not expose the proto tx")
		}
		mutate(pt.GetProtoTx())
	}
	mode := cfg.SignModeHandler().DefaultMode()
	sig := signing.SignatureV2{PubKey: priv.PubKey(), Data: &signing.SingleSignatureData{SignMode: mode}, Sequence: seq}
	if err := b.SetSignatures(sig); err != nil {
		return nil, err
	}
	sd := authsigning.SignerData{ChainID: chainID, AccountNumber: accNum, Sequence: seq}
	sig, err := clienttx.SignWithPrivKey(mode, sd, b, priv, cfg, seq)
	if err != nil {
		return nil, err
	}
	if err := b.SetSignatures(sig); err != nil {
		return nil, err
	}
	return cfg.TxEncoder()(b.GetTx())
}

// SigMode selects how an oracle transaction is "signed" (forgery is a transport fault).
type SigMode int

const (
	SigValid    SigMode = iota
	SigGarbage          // right pubkey, 64 zero bytes
	SigOtherKey         // right pubkey, signature by another key
	SigNone             // right pubkey, empty signature
	SigWrongPub         // another key's pubkey and valid signature by that key
	SigNoSignerInfo     // no signer info at all (so no public key to verify against), one 64-byte dummy signature
)

// OracleTx builds a fee-less create-price transaction attributed to the consensus key `cons`.
func OracleTx(chainID string, cons *ed25519.PrivKey, other *ed25519.PrivKey, mode SigMode, msgs ...sdk.Msg) ([]byte, error) {
	cfg := TxConfig()
	b := cfg.NewTxBuilder()
	b.SetGasLimit(0)
	if err := b.SetMsgs(msgs...); err != nil {
		return nil, err
	}
	sm := cfg.SignModeHandler().DefaultMode()
	pub := cons.PubKey()
	signer := cryptotypes.PrivKey(cons)
	switch mode {
	case SigOtherKey:
		signer = other
	case SigWrongPub:
		pub = other.PubKey()
		signer = other
	}
	sig := signing.SignatureV2{PubKey: pub, Data: &signing.SingleSignatureData{SignMode: sm}, Sequence: 0}
	if err := b.SetSignatures(sig); err != nil {
		return nil, err
	}
	sd := authsigning.SignerData{ChainID: chainID}
	bz, err := cfg.SignModeHandler().GetSignBytes(sm, sd, b.GetTx())
	if err != nil {
		return nil, err
	}
	var sigBz []byte
	switch mode {
	case SigGarbage:
		sigBz = make([]byte, 64)
	case SigNone:
		sigBz = nil
	default:
		sigBz, err = signer.Sign(bz)
		if err != nil {
			return nil, err
		}
	}
	sig.Data = &signing.SingleSignatureData{SignMode: sm, Signature: sigBz}
	if err := b.SetSignatures(sig); err != nil {
		return nil, err
	}
	out, err := cfg.TxEncoder()(b.GetTx())
	if err != nil || mode != SigNoSignerInfo {
		return out, err
	}
	// strip the signer infos from the encoded transaction and keep one dummy signature: the
	// transaction still decodes and has as many signatures as signers, but carries no key.
	var raw txtypes.TxRaw
	if err := raw.Unmarshal(out); err != nil {
		return nil, err
	}
	var ai txtypes.AuthInfo
	if err := ai.Unmarshal(raw.AuthInfoBytes); err != nil {
		return nil, err
	}
	ai.SignerInfos = nil
	if raw.AuthInfoBytes, err = ai.Marshal(); err != nil {
		return nil, err
	}
	raw.Signatures = [][]byte{make([]byte, 64)}
	return raw.Marshal()
}

// OracleCreator is the bech32 account-prefixed form of a consensus address, as used by MsgCreatePrice.
func OracleCreator(cons *ed25519.PrivKey) string {
	return sdk.AccAddress(cons.PubKey().Address()).String()
}

func NewPriceMsg(creator string, feederID uint64, basedBlock uint64, nonce int32, sourceID uint64, price string, decimal int32, detID string, ts string) *oracletypes.MsgCreatePrice {
	return &oracletypes.MsgCreatePrice{
		Creator:  creator,
		FeederID: feederID,
		Prices: []*oracletypes.PriceSource{{
			SourceID: sourceID,
			Prices:   []*oracletypes.PriceTimeDetID{{Price: price, Decimal: decimal, Timestamp: ts, DetID: detID}},
		}},
		BasedBlock: basedBlock,
		Nonce:      nonce,
	}
}

// EthTxArgs describes an Ethereum transaction.
type EthTxArgs struct {
	Type      int // 0 legacy, 1 access list, 2 dynamic fee
	Nonce     uint64
	To        *common.Address
	Value     *big.Int
	GasLimit  uint64
	GasPrice  *big.Int // legacy / access list
	GasFeeCap *big.Int
	GasTipCap *big.Int
	Data      []byte
}

// EthTx builds and signs a MsgEthereumTx wrapped in a cosmos tx.
func EthTx(evmChainID *big.Int, priv cryptotypes.PrivKey, a EthTxArgs) ([]byte, common.Hash, error) {
	args := &evmtypes.EvmTxArgs{
		ChainID: evmChainID, Nonce: a.Nonce, To: a.To, Amount: a.Value, GasLimit: a.GasLimit, Input: a.Data,
	}
	switch a.Type {
	case 0:
		args.GasPrice = a.GasPrice
	case 1:
		args.GasPrice = a.GasPrice
		args.Accesses = &ethtypes.AccessList{}
	default:
		args.GasFeeCap = a.GasFeeCap
		args.GasTipCap = a.GasTipCap
		args.Accesses = &ethtypes.AccessList{}
	}
	msg := evmtypes.NewTx(args)
	signer := ethtypes.LatestSignerForChainID(evmChainID)
	msg.From = common.BytesToAddress(priv.PubKey().Address().Bytes()).Hex()
	if err := msg.Sign(signer, testutiltx.NewSigner(priv)); err != nil {
		return nil, common.Hash{}, err
	}
	msg.From = ""
	cfg := TxConfig()
	b := cfg.NewTxBuilder()
	if err := b.SetMsgs(msg); err != nil {
		return nil, common.Hash{}, err
	}
	opt, err := codectypes.NewAnyWithValue(&evmtypes.ExtensionOptionsEthereumTx{})
	if err != nil {
		return nil, common.Hash{}, err
	}
	eb, ok := b.(authtx.ExtensionOptionsTxBuilder)
	if !ok {
		return nil, common.Hash{}, fmt.Errorf("no extension builder")
	}
	eb.SetExtensionOptions(opt)
	b.SetGasLimit(msg.GetGas())
	b.SetFeeAmount(sdk.Coins{sdk.NewCoin(utils.BaseDenom, sdkmath.NewIntFromBigInt(msg.GetFee()))})
	bz, err := cfg.TxEncoder()(b.GetTx())
	return bz, msg.AsTransaction().Hash(), err
}

// EthBatchTx wraps SEVERAL signed Ethereum transactions of one sender into one cosmos transaction
// (the envelope carries no signature of its own, so anybody who has the signed transactions can
// build it).
func EthBatchTx(evmChainID *big.Int, priv cryptotypes.PrivKey, list []EthTxArgs) ([]byte, error) {
	var msgs []sdk.Msg
	gas := uint64(0)
	fee := new(big.Int)
	signer := ethtypes.LatestSignerForChainID(evmChainID)
	for _, a := range list {
		args := &evmtypes.EvmTxArgs{ChainID: evmChainID, Nonce: a.Nonce, To: a.To, Amount: a.Value, GasLimit: a.GasLimit, Input: a.Data,
			GasFeeCap: a.GasFeeCap, GasTipCap: a.GasTipCap, Accesses: &ethtypes.AccessList{}}
		msg := evmtypes.NewTx(args)
		msg.From = common.BytesToAddress(priv.PubKey().Address().Bytes()).Hex()
		if err := msg.Sign(signer, testutiltx.NewSigner(priv)); err != nil {
			return nil, err
		}
		msg.From = ""
		msgs = append(msgs, msg)
		gas += msg.GetGas()
		fee.Add(fee, msg.GetFee())
	}
	cfg := TxConfig()
	b := cfg.NewTxBuilder()
	if err := b.SetMsgs(msgs...); err != nil {
		return nil, err
	}
	opt, err := codectypes.NewAnyWithValue(&evmtypes.ExtensionOptionsEthereumTx{})
	if err != nil {
		return nil, err
	}
	eb, ok := b.(authtx.ExtensionOptionsTxBuilder)
	if !ok {
		return nil, fmt.Errorf("no extension builder")
	}
	eb.SetExtensionOptions(opt)
	b.SetGasLimit(gas)
	b.SetFeeAmount(sdk.Coins{sdk.NewCoin(utils.BaseDenom, sdkmath.NewIntFromBigInt(fee))})
	return cfg.TxEncoder()(b.GetTx())
}
