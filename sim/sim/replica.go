package sim

import (
	"bytes"
	"fmt"
	"os"

	oraclekeeper "github.com/ExocoreNetwork/exocore/x/oracle/keeper"

	dbm "github.com/cometbft/cometbft-db"
	abci "github.com/cometbft/cometbft/abci/types"
)

// ReplicaOpts controls how a replica executes the canonical block sequence.
type ReplicaOpts struct {
	RestartAfter map[int64]bool // clean stop/start after these heights
	RestartAll   bool           // restart after every block
	CheckTxNoise bool           // run CheckTx of each tx of the block before the block (mempool connection)
	// CrashAt: the process dies inside block h after BeginBlock and the first k transactions
	// (k = -1: right after BeginBlock, k >= len(txs): after EndBlock, before Commit). Nothing of
	// the block is durable; the node restarts from its database and executes the block again.
	CrashAt map[int64]int
	Name    string
}

// Divergence describes the first difference between a replica and the canonical execution.
type Divergence struct {
	Height int64
	What   string
	Detail string
}

// RunReplica executes the recorded canonical blocks on a fresh node and compares every
// observable result with the primary's. The oracle's package-level state is reset to the
// "fresh process" state at every (re)start, so exactly one instance's globals are live.
func (r *Run) RunReplica(o ReplicaOpts) (*Divergence, *PanicError) {
	defer quietApp()()
	n := NewNode(o.Name, r.Cfg.ChainID, dbm.NewMemDB())
	if err := n.Start(); err != nil {
		return &Divergence{0, "start", err.Error()}, nil
	}
	defer n.Stop()
	res, p := n.InitChain(r.InitReq)
	if p != nil {
		return nil, p
	}
	if !bytes.Equal(res.AppHash, r.Chain.InitResp.AppHash) || len(res.Validators) != len(r.Chain.InitResp.Validators) {
		return &Divergence{0, "init-chain", "InitChain response differs"}, nil
	}
	c := NewChain(r.W)
	for _, b := range r.Chain.Blocks {
		if o.CheckTxNoise {
			for _, tx := range b.Txs {
				if _, p := n.CheckTx(tx, false); p != nil {
					return nil, p
				}
			}
		}
		if k, crash := o.CrashAt[b.Height]; crash {
			// partial execution that is lost with the process
			if _, p := n.BeginBlock(c.BeginBlockRequest(b.Header, b.Votes, b.Evidence)); p != nil {
				return nil, p
			}
			for i, tx := range b.Txs {
				if i > k {
					break
				}
				if _, p := n.DeliverTx(tx); p != nil {
					return nil, p
				}
			}
			if k >= len(b.Txs) {
				if _, p := n.EndBlock(b.Height); p != nil {
					return nil, p
				}
			}
			n.Stop()
			if err := n.Start(); err != nil {
				return &Divergence{b.Height, "restart", err.Error()}, nil
			}
			if got := n.App.LastBlockHeight(); got != b.Height-1 {
				return &Divergence{b.Height, "restart-height", fmt.Sprintf("after a crash inside block %d the node restored height %d", b.Height, got)}, nil
			}
		}
		if _, p := n.BeginBlock(c.BeginBlockRequest(b.Header, b.Votes, b.Evidence)); p != nil {
			return nil, p
		}
		if os.Getenv("EXOSIM_ORACLE_DUMP") != "" {
			fmt.Printf("---- replica %s after BeginBlock %d\n%s", o.Name, b.Height, oraclekeeper.VerifDumpDeliver())
		}
		for i, tx := range b.Txs {
			resp, p := n.DeliverTx(tx)
			if p != nil {
				return nil, p
			}
			want := b.TxResults[i]
			if resp.Code != want.Code || !bytes.Equal(resp.Data, want.Data) || resp.GasUsed != want.GasUsed || resp.GasWanted != want.GasWanted {
				what := "tx-result"
				if resp.Code == want.Code && bytes.Equal(resp.Data, want.Data) && resp.GasWanted == want.GasWanted {
					what = "tx-gas-used-only"
					if resp.Code != 0 && resp.GasWanted == 0 {
						// the transaction was rejected before the ante handler installed its own gas
						// meter: the reported GasUsed is whatever the block context's meter holds
						what = "gas-used-of-tx-rejected-before-ante"
					}
				}
				return &Divergence{b.Height, what, fmt.Sprintf("tx %d of height %d: code %d/%d gasUsed %d/%d gasWanted %d/%d data equal=%v log %q vs %q", i, b.Height, resp.Code, want.Code, resp.GasUsed, want.GasUsed, resp.GasWanted, want.GasWanted, bytes.Equal(resp.Data, want.Data), firstN(resp.Log, 160), firstN(want.Log, 160))}, nil
			}
		}
		eb, p := n.EndBlock(b.Height)
		if p != nil {
			return nil, p
		}
		if !equalUpdates(eb.ValidatorUpdates, b.ValUpdates) {
			return &Divergence{b.Height, "validator-updates", fmt.Sprintf("height %d: validator updates %s vs %s", b.Height, fmtUpdates(eb.ValidatorUpdates), fmtUpdates(b.ValUpdates))}, nil
		}
		if (eb.ConsensusParamUpdates == nil) != (b.ConsParams == nil) || (eb.ConsensusParamUpdates != nil && !eb.ConsensusParamUpdates.Equal(b.ConsParams)) {
			return &Divergence{b.Height, "consensus-param-updates", fmt.Sprintf("height %d", b.Height)}, nil
		}
		cr, p := n.Commit()
		if p != nil {
			return nil, p
		}
		if !bytes.Equal(cr.Data, b.AppHash) {
			return &Divergence{b.Height, "app-hash", fmt.Sprintf("height %d: app hash %x vs %x", b.Height, cr.Data, b.AppHash)}, nil
		}
		if o.RestartAll || o.RestartAfter[b.Height] {
			n.Stop()
			if err := n.Start(); err != nil {
				return &Divergence{b.Height, "restart", err.Error()}, nil
			}
			if got := n.App.LastBlockHeight(); got != b.Height {
				return &Divergence{b.Height, "restart-height", fmt.Sprintf("restored height %d want %d", got, b.Height)}, nil
			}
		}
	}
	return nil, nil
}

func equalUpdates(a, b []abci.ValidatorUpdate) bool {
	if len(a) != len(b) {
		return false
	}
	for i := range a {
		if a[i].Power != b[i].Power || !a[i].PubKey.Equal(b[i].PubKey) {
			return false
		}
	}
	return true
}
