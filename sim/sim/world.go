package sim

import (
	"encoding/json"
	"fmt"
	"strings"
	"time"

	sdkmath "cosmossdk.io/math"
	abci "github.com/cometbft/cometbft/abci/types"
	tmproto "github.com/cometbft/cometbft/proto/tendermint/types"
	tmtypes "github.com/cometbft/cometbft/types"
	"github.com/cosmos/cosmos-sdk/crypto/keys/ed25519"
	cryptotypes "github.com/cosmos/cosmos-sdk/crypto/types"
	sdk "github.com/cosmos/cosmos-sdk/types"
	authtypes "github.com/cosmos/cosmos-sdk/x/auth/types"
	banktypes "github.com/cosmos/cosmos-sdk/x/bank/types"
	slashingtypes "github.com/cosmos/cosmos-sdk/x/slashing/types"
	stakingtypes "github.com/cosmos/cosmos-sdk/x/staking/types"
	"github.com/ethereum/go-ethereum/common"
	"github.com/ethereum/go-ethereum/crypto"
	"github.com/ethereum/go-ethereum/common/hexutil"
	"github.com/evmos/evmos/v16/crypto/ethsecp256k1"
	evmostypes "github.com/evmos/evmos/v16/types"
	evmtypes "github.com/evmos/evmos/v16/x/evm/types"
	feemarkettypes "github.com/evmos/evmos/v16/x/feemarket/types"

	exocoreapp "github.com/ExocoreNetwork/exocore/app"
	keytypes "github.com/ExocoreNetwork/exocore/types/keys"
	"github.com/ExocoreNetwork/exocore/utils"
	assetstypes "github.com/ExocoreNetwork/exocore/x/assets/types"
	avstypes "github.com/ExocoreNetwork/exocore/x/avs/types"
	delegationtypes "github.com/ExocoreNetwork/exocore/x/delegation/types"
	dogfoodtypes "github.com/ExocoreNetwork/exocore/x/dogfood/types"
	epochstypes "github.com/ExocoreNetwork/exocore/x/epochs/types"
	exominttypes "github.com/ExocoreNetwork/exocore/x/exomint/types"
	distrtypes "github.com/ExocoreNetwork/exocore/x/feedistribution/types"
	operatortypes "github.com/ExocoreNetwork/exocore/x/operator/types"
	oracletypes "github.com/ExocoreNetwork/exocore/x/oracle/types"
)

// ---------------------------------------------------------------------------
// configuration (swarm): everything that varies between runs
// ---------------------------------------------------------------------------

type EpochCfg struct {
	ID       string `json:"id"`
	DurSec   int64  `json:"dur_s"`
	StartOff int64  `json:"start_off_s"` // start time relative to genesis time (may be negative / positive)
	// genesis entries "mid-count"
	Started      bool  `json:"started,omitempty"`
	CurrentEpoch int64 `json:"current,omitempty"`
}

type AssetCfg struct {
	LzID     uint64 `json:"lz"`
	Addr     string `json:"addr"` // lowercase 0x hex (20 bytes)
	Decimals uint32 `json:"dec"`
	NST      bool   `json:"nst,omitempty"`
	// oracle
	PriceDec int32  `json:"pdec"`
	Price    string `json:"price"`
	Interval uint64 `json:"interval"` // feeder interval in blocks
	InDogfood bool  `json:"dogfood"`
}

type Config struct {
	Seed        uint64     `json:"seed"`
	ChainID     string     `json:"chain_id"`
	NOps        int        `json:"n_ops"`        // registered operators
	NVals       int        `json:"n_vals"`       // operators that are validators at genesis (<= NOps)
	NStakers    int        `json:"n_stakers"`    // extra client-chain stakers (no keys)
	NNatives    int        `json:"n_natives"`    // accounts holding native token
	Chains      []uint64   `json:"chains"`       // lz ids
	Assets      []AssetCfg `json:"assets"`       // LST/NST assets (native token is implicit)
	Epochs      []EpochCfg `json:"epochs"`
	DogfoodEpoch string    `json:"dogfood_epoch"`
	UnbondEpochs uint32    `json:"unbond_epochs"`
	MaxVals      uint32    `json:"max_vals"`
	MinSelfDeleg int64     `json:"min_self_deleg"`
	NativeInDogfood bool   `json:"native_in_dogfood"`
	// genesis self stake per validator in whole tokens of asset 0 (-> USD power)
	GenPowers []int64 `json:"gen_powers"`
	// x/slashing
	SignedWindow    int64  `json:"signed_window"`
	MinSignedPct    int64  `json:"min_signed_pct"`
	JailSec         int64  `json:"jail_s"`
	SlashDowntime   string `json:"slash_downtime"`
	SlashDoubleSign string `json:"slash_doublesign"`
	// oracle
	OracleMaxNonce int32 `json:"oracle_max_nonce"`
	MaxSizePrices  int32 `json:"max_size_prices"`
	// mint / distribution
	MintEpoch     string `json:"mint_epoch"`
	MintReward    string `json:"mint_reward"`
	DistrEpoch    string `json:"distr_epoch"`
	CommunityTax  string `json:"community_tax"`
	Commissions   []string `json:"commissions"`
	// evm / feemarket
	NoBaseFee      bool   `json:"no_base_fee"`
	MinGasMult     string `json:"min_gas_multiplier"`
	BlockMaxGas    int64  `json:"block_max_gas"`
	// block time
	BlockSec int64 `json:"block_s"`
	// ProposerAny lets the stub pick any member of the validator set as proposer, including
	// one the application can no longer resolve (known finding K1); otherwise it is avoided
	ProposerAny bool `json:"proposer_any,omitempty"`
	// GatewayContract makes the configured gateway a forwarder CONTRACT (deployed by user 2 with
	// its first transaction) instead of an externally owned account
	GatewayContract bool `json:"gateway_contract,omitempty"`
	// FeederSwap lets the first two price feeders serve each other's token (feeder id != token id)
	FeederSwap bool `json:"feeder_swap,omitempty"`
	// HugeAmounts allows amounts of 2^128..2^255 (trigger-allowed runs for the known integer-overflow findings)
	HugeAmounts bool `json:"huge_amounts,omitempty"`
}

// Actor keys: all derived from the seed.
type Account struct {
	Name string
	Priv *ethsecp256k1.PrivKey
	Addr sdk.AccAddress
	Eth  common.Address
}

type Operator struct {
	Account
	Idx      int
	ConsKeys []*ed25519.PrivKey // pool of consensus keys; [0] is the genesis key
	StakerID string             // the operator's own staker identity on chain[0] (self delegation)
}

type World struct {
	Cfg      Config
	Gateway  Account
	GatewayContract common.Address // address the forwarder gets when user 2 deploys it with nonce 0
	OuterContract   common.Address // a second forwarder (user 1, nonce 0) used as the OUTER frame of nested calls
	Ops      []*Operator
	Stakers  [][]byte // 20-byte client chain addresses
	Natives  []Account
	Users    []Account
	AssetIDs []string // index-aligned with Cfg.Assets
	DogfoodAVS string
	GenesisTime time.Time
	ChainIDNoRev string
}

func deriveEthKey(seed uint64, label string, i int) *ethsecp256k1.PrivKey {
	p := NewPRNG(MixStr(Mix(seed, uint64(i)), label))
	for {
		b := p.Bytes(32)
		k := &ethsecp256k1.PrivKey{Key: b}
		if _, err := k.ToECDSA(); err == nil {
			return k
		}
	}
}

func deriveEdKey(seed uint64, label string, i int) *ed25519.PrivKey {
	p := NewPRNG(MixStr(Mix(seed, uint64(i)), label))
	return ed25519.GenPrivKeyFromSecret(p.Bytes(32))
}

func mkAccount(seed uint64, label string, i int) Account {
	k := deriveEthKey(seed, label, i)
	addr := sdk.AccAddress(k.PubKey().Address().Bytes())
	return Account{Name: fmt.Sprintf("%s%d", label, i), Priv: k, Addr: addr, Eth: common.BytesToAddress(addr.Bytes())}
}

const ConsKeyPool = 6

// NewWorld derives all actors from the config.
func NewWorld(cfg Config) *World {
	w := &World{Cfg: cfg}
	w.Gateway = mkAccount(cfg.Seed, "gateway", 0)
	w.GatewayContract = crypto.CreateAddress(mkAccount(cfg.Seed, "user", 2).Eth, 0)
	w.OuterContract = crypto.CreateAddress(mkAccount(cfg.Seed, "user", 1).Eth, 0)
	for i := 0; i < cfg.NOps; i++ {
		op := &Operator{Account: mkAccount(cfg.Seed, "op", i), Idx: i}
		for k := 0; k < ConsKeyPool; k++ {
			op.ConsKeys = append(op.ConsKeys, deriveEdKey(cfg.Seed, fmt.Sprintf("cons%d_", i), k))
		}
		op.StakerID, _ = assetstypes.GetStakerIDAndAssetID(cfg.Chains[0], op.Eth.Bytes(), nil)
		w.Ops = append(w.Ops, op)
	}
	for i := 0; i < cfg.NStakers; i++ {
		p := NewPRNG(MixStr(Mix(cfg.Seed, uint64(i)), "staker"))
		w.Stakers = append(w.Stakers, p.Bytes(20))
	}
	for i := 0; i < cfg.NNatives; i++ {
		w.Natives = append(w.Natives, mkAccount(cfg.Seed, "native", i))
	}
	for i := 0; i < 3; i++ {
		w.Users = append(w.Users, mkAccount(cfg.Seed, "user", i))
	}
	for _, a := range cfg.Assets {
		_, id := assetstypes.GetStakerIDAndAssetIDFromStr(a.LzID, "", a.Addr)
		w.AssetIDs = append(w.AssetIDs, id)
	}
	w.ChainIDNoRev = avstypes.ChainIDWithoutRevision(cfg.ChainID)
	w.DogfoodAVS = avstypes.GenerateAVSAddr(w.ChainIDNoRev)
	// fixed, seed-independent genesis time: 2024-01-01T00:00:00Z
	w.GenesisTime = time.Unix(1704067200, 0).UTC()
	return w
}

// GatewayAddrHex is the configured gateway address (EOA or forwarder contract).
func (w *World) GatewayAddrHex() string {
	if w.Cfg.GatewayContract {
		return w.GatewayContract.Hex()
	}
	return w.Gateway.Eth.Hex()
}

// StakerID of the i-th extra staker on a chain.
func (w *World) StakerIDOf(i int, lz uint64) string {
	id, _ := assetstypes.GetStakerIDAndAssetID(lz, w.Stakers[i], nil)
	return id
}

func ConsPub(k *ed25519.PrivKey) keytypes.WrappedConsKey {
	return keytypes.NewWrappedConsKeyFromSdkKey(k.PubKey())
}

func pow10(n uint32) sdkmath.Int {
	return sdkmath.NewIntWithDecimal(1, int(n))
}

// ---------------------------------------------------------------------------
// genesis
// ---------------------------------------------------------------------------

func ethAccount(pk cryptotypes.PubKey) authtypes.GenesisAccount {
	var base *authtypes.BaseAccount
	base = authtypes.NewBaseAccount(sdk.AccAddress(pk.Address().Bytes()), pk, 0, 0)
	return &evmostypes.EthAccount{BaseAccount: base, CodeHash: common.BytesToHash(evmtypes.EmptyCodeHash).Hex()}
}

// BuildGenesis returns the app state and the consensus params for InitChain.
func (w *World) BuildGenesis(app *exocoreapp.ExocoreApp) (map[string]json.RawMessage, *tmproto.ConsensusParams, error) {
	cfg := w.Cfg
	cdc := app.AppCodec()
	gs := exocoreapp.NewDefaultGenesisState(cdc)

	// ---- auth + bank
	var accs []authtypes.GenesisAccount
	var balances []banktypes.Balance
	fund := func(a Account, amt sdkmath.Int) {
		accs = append(accs, ethAccount(a.Priv.PubKey()))
		balances = append(balances, banktypes.Balance{Address: a.Addr.String(), Coins: sdk.NewCoins(sdk.NewCoin(utils.BaseDenom, amt))})
	}
	big := sdkmath.NewIntWithDecimal(1, 30)
	fund(w.Gateway, big)
	for _, op := range w.Ops {
		fund(op.Account, big)
	}
	for _, n := range w.Natives {
		fund(n, big)
	}
	for _, u := range w.Users {
		fund(u, big)
	}
	gs[authtypes.ModuleName] = cdc.MustMarshalJSON(authtypes.NewGenesisState(authtypes.DefaultParams(), accs))
	total := sdk.NewCoins()
	for _, b := range balances {
		total = total.Add(b.Coins...)
	}
	gs[banktypes.ModuleName] = cdc.MustMarshalJSON(banktypes.NewGenesisState(banktypes.DefaultParams(), balances, total, []banktypes.Metadata{}, []banktypes.SendEnabled{}))

	// ---- epochs
	var eps []epochstypes.EpochInfo
	for _, e := range cfg.Epochs {
		ei := epochstypes.EpochInfo{
			Identifier: e.ID,
			StartTime:  w.GenesisTime.Add(time.Duration(e.StartOff) * time.Second),
			Duration:   time.Duration(e.DurSec) * time.Second,
		}
		if e.Started {
			ei.EpochCountingStarted = true
			ei.CurrentEpoch = e.CurrentEpoch
			ei.CurrentEpochStartTime = ei.StartTime.Add(time.Duration(e.CurrentEpoch-1) * ei.Duration)
			ei.CurrentEpochStartHeight = 0
		} else if e.CurrentEpoch != 0 {
			// a stale number on an identifier whose counting has not started (genesis validation
			// accepts it): the first tick must still make the number 1
			ei.CurrentEpoch = e.CurrentEpoch
		}
		eps = append(eps, ei)
	}
	gs[epochstypes.ModuleName] = cdc.MustMarshalJSON(epochstypes.NewGenesisState(eps))

	// ---- assets
	var chains []assetstypes.ClientChainInfo
	for _, lz := range cfg.Chains {
		chains = append(chains, assetstypes.ClientChainInfo{
			Name: fmt.Sprintf("chain%d", lz), MetaInfo: "client chain", ChainId: lz, FinalizationBlocks: 10,
			LayerZeroChainID: lz, AddressLength: 20,
		})
	}
	// genesis stake: validator i self-delegates GenPowers[i] whole tokens of asset 0
	a0 := cfg.Assets[0]
	assetID0 := w.AssetIDs[0]
	totals := make([]sdkmath.Int, len(cfg.Assets))
	for i := range totals {
		totals[i] = sdkmath.ZeroInt()
	}
	var deposits []assetstypes.DepositsByStaker
	var opAssets []assetstypes.AssetsByOperator
	var delStates []delegationtypes.DelegationStates
	var assocs []delegationtypes.StakerToOperator
	var stakersByOp []delegationtypes.StakersByOperator
	var opInfos []operatortypes.OperatorDetail
	var consKeys []operatortypes.OperatorConsKeyRecord
	var optStates []operatortypes.OptedState
	var usdValues []operatortypes.OperatorUSDValue
	var valset []dogfoodtypes.GenesisValidator
	totalPower := int64(0)
	avsTotal := sdkmath.LegacyZeroDec()
	price0, _ := sdkmath.NewIntFromString(a0.Price)
	for i, op := range w.Ops {
		comm := sdk.ZeroDec()
		if i < len(cfg.Commissions) {
			comm = sdk.MustNewDecFromStr(cfg.Commissions[i])
		}
		opInfos = append(opInfos, operatortypes.OperatorDetail{
			OperatorAddress: op.Addr.String(),
			OperatorInfo: operatortypes.OperatorInfo{
				EarningsAddr:     op.Addr.String(),
				OperatorMetaInfo: op.Name,
				Commission:       stakingtypes.NewCommission(comm, sdk.OneDec(), sdk.OneDec()),
			},
		})
		if i >= cfg.NVals {
			continue
		}
		amt := sdkmath.NewInt(cfg.GenPowers[i]).Mul(pow10(a0.Decimals))
		totals[0] = totals[0].Add(amt)
		deposits = append(deposits, assetstypes.DepositsByStaker{
			StakerID: op.StakerID,
			Deposits: []assetstypes.DepositByAsset{{AssetID: assetID0, Info: assetstypes.StakerAssetInfo{
				TotalDepositAmount: amt, WithdrawableAmount: sdkmath.ZeroInt(), PendingUndelegationAmount: sdkmath.ZeroInt(),
			}}},
		})
		opAssets = append(opAssets, assetstypes.AssetsByOperator{
			Operator: op.Addr.String(),
			AssetsState: []assetstypes.AssetByID{{AssetID: assetID0, Info: assetstypes.OperatorAssetInfo{
				TotalAmount: amt, PendingUndelegationAmount: sdkmath.ZeroInt(),
				TotalShare: sdkmath.LegacyNewDecFromInt(amt), OperatorShare: sdkmath.LegacyNewDecFromInt(amt),
			}}},
		})
		delStates = append(delStates, delegationtypes.DelegationStates{
			Key: string(assetstypes.GetJoinedStoreKey(op.StakerID, assetID0, op.Addr.String())),
			States: delegationtypes.DelegationAmounts{
				WaitUndelegationAmount: sdkmath.ZeroInt(), UndelegatableShare: sdkmath.LegacyNewDecFromInt(amt),
			},
		})
		assocs = append(assocs, delegationtypes.StakerToOperator{Operator: op.Addr.String(), StakerID: op.StakerID})
		stakersByOp = append(stakersByOp, delegationtypes.StakersByOperator{
			Key: string(assetstypes.GetJoinedStoreKey(op.Addr.String(), assetID0)), Stakers: []string{op.StakerID},
		})
		wk := ConsPub(op.ConsKeys[0])
		consKeys = append(consKeys, operatortypes.OperatorConsKeyRecord{
			OperatorAddress: op.Addr.String(),
			Chains:          []operatortypes.ChainDetails{{ChainID: w.ChainIDNoRev, ConsensusKey: wk.ToHex()}},
		})
		optStates = append(optStates, operatortypes.OptedState{
			Key:     string(assetstypes.GetJoinedStoreKey(op.Addr.String(), w.DogfoodAVS)),
			OptInfo: operatortypes.OptedInfo{OptedInHeight: 1, OptedOutHeight: operatortypes.DefaultOptedOutHeight},
		})
		// usd = amt * price / 10^(dec+pdec)
		usd := sdkmath.LegacyNewDecFromInt(amt.Mul(price0)).Quo(sdkmath.LegacyNewDecFromInt(pow10(a0.Decimals + uint32(a0.PriceDec))))
		usdValues = append(usdValues, operatortypes.OperatorUSDValue{
			Key:           string(assetstypes.GetJoinedStoreKey(w.DogfoodAVS, op.Addr.String())),
			OptedUSDValue: operatortypes.OperatorOptedUSDValue{SelfUSDValue: usd, TotalUSDValue: usd, ActiveUSDValue: usd},
		})
		avsTotal = avsTotal.Add(usd)
		power := usd.TruncateInt64()
		valset = append(valset, dogfoodtypes.GenesisValidator{PublicKey: wk.ToHex(), Power: power})
		totalPower += power
	}
	var tokens []assetstypes.StakingAssetInfo
	if cfg.NativeInDogfood {
		// the native token only counts towards voting power when it is a registered staking asset
		chains = append(chains, assetstypes.ClientChainInfo{Name: "exocore", MetaInfo: "exocore native", ChainId: 0, FinalizationBlocks: 1, LayerZeroChainID: assetstypes.ExocoreChainLzID, AddressLength: 20})
		tokens = append(tokens, assetstypes.StakingAssetInfo{
			AssetBasicInfo:     assetstypes.AssetInfo{Name: "exo", Symbol: "exo", Address: assetstypes.ExocoreAssetAddr, Decimals: 18, LayerZeroChainID: assetstypes.ExocoreChainLzID, MetaInfo: "native"},
			StakingTotalAmount: sdkmath.ZeroInt(),
		})
	}
	for i, a := range cfg.Assets {
		name := fmt.Sprintf("TOK%d", i)
		if a.NST {
			name = fmt.Sprintf("NST%d", i)
		}
		tokens = append(tokens, assetstypes.StakingAssetInfo{
			AssetBasicInfo: assetstypes.AssetInfo{
				Name: name, Symbol: name, Address: a.Addr, Decimals: a.Decimals,
				LayerZeroChainID: a.LzID, MetaInfo: name,
			},
			StakingTotalAmount: totals[i],
		})
	}
	assetsGen := assetstypes.NewGenesis(
		assetstypes.NewParams(w.GatewayAddrHex(), assetstypes.DefaultExocoreLzAppEventTopic),
		chains, tokens, deposits, opAssets,
	)
	gs[assetstypes.ModuleName] = cdc.MustMarshalJSON(assetsGen)

	// ---- oracle
	op := oracletypes.DefaultParams()
	op.Tokens = []*oracletypes.Token{{}}
	op.TokenFeeders = []*oracletypes.TokenFeeder{{}}
	op.MaxNonce = cfg.OracleMaxNonce
	op.MaxSizePrices = cfg.MaxSizePrices
	var prices []oracletypes.Prices
	for i, a := range cfg.Assets {
		name := fmt.Sprintf("TOK%d", i)
		if a.NST {
			name = "nst" + strings.ToLower(fmt.Sprintf("eth%d", i))
		}
		op.Tokens = append(op.Tokens, &oracletypes.Token{
			Name: name, ChainID: 1, ContractAddress: a.Addr, Decimal: a.PriceDec, Active: true, AssetID: w.AssetIDs[i],
		})
		op.TokenFeeders = append(op.TokenFeeders, &oracletypes.TokenFeeder{
			TokenID: uint64(i + 1), RuleID: 1, StartRoundID: 2, StartBaseBlock: 1, Interval: a.Interval, // round 1 is the bootstrapped genesis price
		})
		prices = append(prices, oracletypes.Prices{
			TokenID: uint64(i + 1), NextRoundID: 2,
			PriceList: []*oracletypes.PriceTimeRound{{Price: a.Price, Decimal: a.PriceDec, RoundID: 1}},
		})
	}
	if cfg.FeederSwap && len(op.TokenFeeders) >= 3 {
		op.TokenFeeders[1].TokenID, op.TokenFeeders[2].TokenID = op.TokenFeeders[2].TokenID, op.TokenFeeders[1].TokenID
	}
	og := oracletypes.NewGenesisState(op)
	og.PricesList = prices
	gs[oracletypes.ModuleName] = cdc.MustMarshalJSON(og)

	// ---- operator
	avsUSD := []operatortypes.AVSUSDValue{{AVSAddr: w.DogfoodAVS, Value: operatortypes.DecValueField{Amount: avsTotal}}}
	gs[operatortypes.ModuleName] = cdc.MustMarshalJSON(operatortypes.NewGenesisState(opInfos, consKeys, optStates, usdValues, avsUSD, nil, nil, nil))

	// ---- delegation
	gs[delegationtypes.ModuleName] = cdc.MustMarshalJSON(delegationtypes.NewGenesis(assocs, delStates, stakersByOp, nil))

	// ---- dogfood
	var dfAssets []string
	for i, a := range cfg.Assets {
		if a.InDogfood || i == 0 {
			dfAssets = append(dfAssets, w.AssetIDs[i])
		}
	}
	if cfg.NativeInDogfood {
		dfAssets = append(dfAssets, assetstypes.ExocoreAssetID)
	}
	dp := dogfoodtypes.NewParams(cfg.UnbondEpochs, cfg.DogfoodEpoch, cfg.MaxVals, 10, dfAssets, sdkmath.NewInt(cfg.MinSelfDeleg))
	dg := dogfoodtypes.NewGenesis(dp, valset, []dogfoodtypes.EpochToOperatorAddrs{}, []dogfoodtypes.EpochToConsensusAddrs{}, []dogfoodtypes.EpochToUndelegationRecordKeys{}, sdkmath.NewInt(totalPower))
	gs[dogfoodtypes.ModuleName] = cdc.MustMarshalJSON(dg)

	// ---- slashing
	sp := slashingtypes.DefaultParams()
	sp.SignedBlocksWindow = cfg.SignedWindow
	sp.MinSignedPerWindow = sdk.NewDecWithPrec(cfg.MinSignedPct, 2)
	sp.DowntimeJailDuration = time.Duration(cfg.JailSec) * time.Second
	sp.SlashFractionDowntime = sdk.MustNewDecFromStr(cfg.SlashDowntime)
	sp.SlashFractionDoubleSign = sdk.MustNewDecFromStr(cfg.SlashDoubleSign)
	gs[slashingtypes.ModuleName] = cdc.MustMarshalJSON(slashingtypes.NewGenesisState(sp, nil, nil))

	// ---- mint / distribution
	mg := exominttypes.DefaultGenesis()
	mg.Params.EpochIdentifier = cfg.MintEpoch
	if r, ok := sdkmath.NewIntFromString(cfg.MintReward); ok {
		mg.Params.EpochReward = r
	}
	gs[exominttypes.ModuleName] = cdc.MustMarshalJSON(mg)
	dgp := distrtypes.DefaultParams()
	dgp.EpochIdentifier = cfg.DistrEpoch
	dgp.CommunityTax = sdk.MustNewDecFromStr(cfg.CommunityTax)
	gs[distrtypes.ModuleName] = cdc.MustMarshalJSON(distrtypes.NewGenesisState(dgp))

	// ---- avs
	gs[avstypes.ModuleName] = cdc.MustMarshalJSON(avstypes.DefaultGenesis())

	// ---- evm / feemarket
	var eg evmtypes.GenesisState
	cdc.MustUnmarshalJSON(gs[evmtypes.ModuleName], &eg)
	eg.Params.EvmDenom = utils.BaseDenom
	gs[evmtypes.ModuleName] = cdc.MustMarshalJSON(&eg)
	var fg feemarkettypes.GenesisState
	cdc.MustUnmarshalJSON(gs[feemarkettypes.ModuleName], &fg)
	fg.Params.NoBaseFee = cfg.NoBaseFee
	if cfg.MinGasMult != "" {
		fg.Params.MinGasMultiplier = sdk.MustNewDecFromStr(cfg.MinGasMult)
	}
	gs[feemarkettypes.ModuleName] = cdc.MustMarshalJSON(&fg)

	cp := &tmproto.ConsensusParams{
		Block:     &tmproto.BlockParams{MaxBytes: 2000000, MaxGas: cfg.BlockMaxGas},
		Evidence:  &tmproto.EvidenceParams{MaxAgeNumBlocks: 100000, MaxAgeDuration: 504 * time.Hour, MaxBytes: 10000},
		Validator: &tmproto.ValidatorParams{PubKeyTypes: []string{tmtypes.ABCIPubKeyTypeEd25519}},
	}
	return gs, cp, nil
}

// InitChainRequest builds the request from the genesis state.
func (w *World) InitChainRequest(gs map[string]json.RawMessage, cp *tmproto.ConsensusParams) (abci.RequestInitChain, error) {
	bz, err := json.Marshal(gs)
	if err != nil {
		return abci.RequestInitChain{}, err
	}
	return abci.RequestInitChain{
		Time:            w.GenesisTime,
		ChainId:         w.Cfg.ChainID,
		Validators:      []abci.ValidatorUpdate{},
		ConsensusParams: cp,
		AppStateBytes:   bz,
		InitialHeight:   1,
	}, nil
}

var _ = hexutil.Encode
