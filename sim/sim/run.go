package sim

import (
	"os"

	oraclekeeper "github.com/ExocoreNetwork/exocore/x/oracle/keeper"
	"encoding/json"
	"fmt"
	"sort"
	"strings"
	"time"

	dbm "github.com/cometbft/cometbft-db"
	abci "github.com/cometbft/cometbft/abci/types"
	tmproto "github.com/cometbft/cometbft/proto/tendermint/types"
	sdk "github.com/cosmos/cosmos-sdk/types"
	"github.com/ethereum/go-ethereum/accounts/abi"
	txtypes "github.com/cosmos/cosmos-sdk/types/tx"
	"github.com/ethereum/go-ethereum/common"
	evmtypes "github.com/evmos/evmos/v16/x/evm/types"
)

// EvSpec asks the stub to report an equivocation of operator Op's consensus key Key at
// height (current - Back). It is only delivered if that key was in the validator set then.
type EvSpec struct {
	Op   int   `json:"op"`
	Key  int   `json:"key"`
	Back int64 `json:"back"`
}

// Block is one block of a plan.
type Block struct {
	DtNs   int64    `json:"dt_ns"`            // header time advance in nanoseconds
	Prop   int      `json:"prop,omitempty"`   // proposer index
	Absent []int    `json:"absent,omitempty"` // operator indexes whose validators do not sign the previous block
	Evid   []EvSpec `json:"evid,omitempty"`
	Ops    []Op     `json:"ops,omitempty"`
	// node-level faults
	Restart bool   `json:"restart,omitempty"` // clean stop/start after this block's commit
	Crash   string `json:"crash,omitempty"`   // "begin" | "tx:<k>" | "end": crash at that point, restart, replay the block
	CheckTx []int  `json:"checktx,omitempty"` // indexes of ops additionally run through CheckTx before the block
	Export  bool   `json:"export,omitempty"`  // C18: export the application state after this block's commit
}

// Plan is the complete, explicit schedule of one run.
type Plan struct {
	Blocks []Block `json:"blocks"`
}

func (p Plan) NumOps() int {
	n := 0
	for _, b := range p.Blocks {
		n += len(b.Ops)
	}
	return n
}

// Violation is what a monitor reports.
type Violation struct {
	Prop      string `json:"property"`
	Monitor   string `json:"monitor"`
	Invariant string `json:"invariant"`
	Disc      string `json:"discriminator"` // small, stable description used to match known findings
	Detail    string `json:"detail"`
	Block     int    `json:"block"`
	OpIdx     int    `json:"op"`
	Height    int64  `json:"height"`
	Phase     string `json:"phase"`
}

func (v *Violation) Class() string { return v.Prop + "/" + v.Monitor + "/" + v.Invariant + "/" + v.Disc }

// TxResult is a delivered transaction with decoded outcome.
type TxResult struct {
	*BuiltTx
	Resp    abci.ResponseDeliverTx
	EthResp *evmtypes.MsgEthereumTxResponse
	// OK is the operation's own success verdict: tx code 0, no VM error and (for precompile
	// calls that return a success flag) that flag being true.
	OK      bool
	Flag    *bool
	Height  int64
	Block   int
	Index   int
}

// Monitor observes a run. All methods may call r.Violate.
type Monitor interface {
	Name() string
	Init(r *Run)
	AfterInit(r *Run)                         // after InitChain, before the first block
	AfterBeginBlock(r *Run, ctx sdk.Context)  // deliver state after BeginBlock
	BeforeTx(r *Run, ctx sdk.Context, tx *BuiltTx)
	AfterTx(r *Run, ctx sdk.Context, tx *TxResult)
	AfterEndBlock(r *Run, ctx sdk.Context, res abci.ResponseEndBlock)
	AfterCommit(r *Run, ctx sdk.Context)
	Finish(r *Run)
}

// DirectAware monitors are told about direct keeper calls (ops that are not transactions).
type DirectAware interface {
	AfterDirect(r *Run, ctx sdk.Context, op Op)
}

// BaseMonitor provides no-op defaults.
type BaseMonitor struct{}

func (BaseMonitor) Init(*Run)                                             {}
func (BaseMonitor) AfterInit(*Run)                                        {}
func (BaseMonitor) AfterBeginBlock(*Run, sdk.Context)                     {}
func (BaseMonitor) BeforeTx(*Run, sdk.Context, *BuiltTx)                  {}
func (BaseMonitor) AfterTx(*Run, sdk.Context, *TxResult)                  {}
func (BaseMonitor) AfterEndBlock(*Run, sdk.Context, abci.ResponseEndBlock) {}
func (BaseMonitor) AfterCommit(*Run, sdk.Context)                         {}
func (BaseMonitor) Finish(*Run)                                           {}

// Stats are measured per run and merged per batch.
type Stats struct {
	Blocks      int            `json:"blocks"`
	Txs         int            `json:"txs"`
	TxOK        int            `json:"tx_ok"`
	SimSeconds  int64          `json:"sim_seconds"`
	Faults      map[string]int `json:"faults"`  // fault kind -> times actually fired
	Probes      map[string]int `json:"probes"`  // rare-condition probes
	OpOutcomes  map[string]int `json:"op_outcomes"`
	States      map[string]int `json:"-"`       // abstract states visited
	Aborted     string         `json:"aborted,omitempty"` // inconclusive reason (e.g. panic owned by C11)
	KnownHits   map[string]int `json:"known_hits,omitempty"`
	Suppressed  map[string]int `json:"suppressed,omitempty"`
}

func NewStats() Stats {
	return Stats{Faults: map[string]int{}, Probes: map[string]int{}, OpOutcomes: map[string]int{}, States: map[string]int{}}
}

// Run is one simulated execution.
type Run struct {
	txMutate func(*txtypes.Tx) // one-shot hook used by builders that need a non-canonical message encoding
	Tier    string
	Prop    string
	Seed    uint64
	Cfg     Config
	Plan    Plan
	W       *World
	Node    *Node
	Chain   *Chain
	Mons    []Monitor
	History []*BuiltTx // all built transactions, for replays
	Results []*TxResult
	Viol    *Violation
	Stats   Stats
	curBlock int
	curOp    int
	phase    string
	Log     []string // event log (harness events only)
	Verbose bool
	// hooks recorded by the epoch decorators
	EpochCalls []EpochCall
	SubscriberTypes []string
	InitReq abci.RequestInitChain
	NoPanicGuard bool // C11 owns panics: report them as violations
	Canon []*BlockRecord
	ledgerTag    string
	ledgerCache  *Ledger
	LastBegin    abci.ResponseBeginBlock
	LastEvidence []Evidence
	Contracts    []common.Address // successfully deployed contracts, in order
	tainted      bool
	NoKnown      bool // replay/minimise mode: known findings are reported like any violation
	PendingDogfoodUndelegations []string
	LastNST *NSTUpdate
	ExtraHolds map[string]uint64 // record key -> holds placed by the simulated second holder
	ReleaseErr []string          // errors of the second holder's releases
}

func (r *Run) Logf(f string, a ...interface{}) {
	if r.Verbose {
		r.Log = append(r.Log, fmt.Sprintf(f, a...))
	}
}

func (r *Run) Probe(name string)  { r.Stats.Probes[name]++ }
func (r *Run) Fault(name string)  { r.Stats.Faults[name]++ }
func (r *Run) State(name string)  { r.Stats.States[name]++ }

// Violate records the first violation of the run and returns true if the run stops.
// A violation whose class is listed as an open known finding is only counted (the run goes
// on, so the finding does not mask deeper states); after such a hit the run is "tainted":
// later violations of other classes may be consequences of the known defect and are counted
// as suppressed instead of being reported as new.
func (r *Run) Violate(mon, inv, disc, detail string) bool {
	if r.Viol != nil {
		return true
	}
	h := int64(0)
	if r.Chain != nil {
		h = r.Chain.CurHeader.Height
	}
	v := &Violation{Prop: r.Prop, Monitor: mon, Invariant: inv, Disc: disc, Detail: detail,
		Block: r.curBlock, OpIdx: r.curOp, Height: h, Phase: r.phase}
	if !r.NoKnown {
		if KnownClasses()[v.Class()] {
			if r.Stats.KnownHits == nil {
				r.Stats.KnownHits = map[string]int{}
			}
			r.Stats.KnownHits[v.Class()]++
			r.tainted = true
			return false
		}
		if r.tainted {
			if r.Stats.Suppressed == nil {
				r.Stats.Suppressed = map[string]int{}
			}
			r.Stats.Suppressed[v.Class()]++
			return false
		}
	}
	r.Viol = v
	return true
}

var knownClasses map[string]bool

// KnownClasses returns the classes of the open known findings (loaded once per process).
func KnownClasses() map[string]bool {
	if knownClasses == nil {
		knownClasses = map[string]bool{}
		for _, f := range LoadKnown().Findings {
			if f.Status == "open" {
				knownClasses[f.Class] = true
			}
		}
	}
	return knownClasses
}

// NewRun prepares a run (world, node, genesis) but executes nothing.
func NewRun(prop string, seed uint64, cfg Config, plan Plan, mons []Monitor) *Run {
	return &Run{Prop: prop, Seed: seed, Cfg: cfg, Plan: plan, Mons: mons, Stats: NewStats()}
}

func (r *Run) abort(reason string) {
	if r.Stats.Aborted == "" {
		r.Stats.Aborted = reason
	}
}

// onPanic handles a panic that escaped an ABCI call of block processing.
func (r *Run) onPanic(p *PanicError) {
	if r.NoPanicGuard {
		if !r.Violate("liveness", "no-panic-escapes-"+p.Phase, PanicDisc(p), fmt.Sprintf("%v\n%s", p.Value, trimStack(p.Stack))) {
			r.abort("known-finding-halt")
		}
		return
	}
	r.abort("panic:" + p.Phase + ":" + PanicDisc(p))
}

// PanicDisc normalises a panic into (message head, innermost repo frame).
func PanicDisc(p *PanicError) string {
	msg := fmt.Sprintf("%v", p.Value)
	if i := strings.IndexByte(msg, '\n'); i >= 0 {
		msg = msg[:i]
	}
	if len(msg) > 80 {
		msg = msg[:80]
	}
	frame := ""
	lines := strings.Split(p.Stack, "\n")
	for i, l := range lines {
		if strings.Contains(l, "github.com/ExocoreNetwork/exocore/") && !strings.Contains(l, "exosim") && i+1 < len(lines) {
			f := strings.TrimSpace(l)
			if j := strings.Index(f, "("); j > 0 {
				f = f[:j]
			}
			f = strings.TrimPrefix(f, "github.com/ExocoreNetwork/exocore/")
			frame = f
			break
		}
	}
	return normDigits(msg) + " @ " + frame
}

func normDigits(s string) string {
	var b strings.Builder
	prev := false
	for _, c := range s {
		if c >= '0' && c <= '9' {
			if !prev {
				b.WriteByte('#')
			}
			prev = true
			continue
		}
		prev = false
		b.WriteRune(c)
	}
	return b.String()
}

func trimStack(s string) string {
	lines := strings.Split(s, "\n")
	var out []string
	for _, l := range lines {
		if strings.Contains(l, "ExocoreNetwork/exocore") || strings.Contains(l, "/repo/") {
			out = append(out, l)
		}
		if len(out) > 24 {
			break
		}
	}
	return strings.Join(out, "\n")
}

// Setup constructs the world and node and runs InitChain.
func (r *Run) Setup() bool {
	r.W = NewWorld(r.Cfg)
	r.Node = NewNode("n0", r.Cfg.ChainID, dbm.NewMemDB())
	if err := r.Node.Start(); err != nil {
		r.abort("start: " + err.Error())
		return false
	}
	gs, cp, err := r.W.BuildGenesis(r.Node.App)
	if err != nil {
		r.abort("genesis: " + err.Error())
		return false
	}
	req, err := r.W.InitChainRequest(gs, cp)
	if err != nil {
		r.abort("genesis: " + err.Error())
		return false
	}
	r.InitReq = req
	r.InstallEpochRecorders()
	res, perr := r.Node.InitChain(req)
	if perr != nil {
		// our own genesis must be valid: this is harness trouble, not a finding
		r.abort("initchain-panic: " + PanicDisc(perr) + " :: " + fmt.Sprintf("%v", perr.Value))
		return false
	}
	r.Chain = NewChain(r.W)
	if err := r.Chain.ApplyInit(res); err != nil {
		r.abort("initchain: " + err.Error())
		return false
	}
	// commit genesis state is not done by a real node either; state is in deliverState until first commit
	for _, m := range r.Mons {
		m.Init(r)
	}
	r.phase = "init"
	for _, m := range r.Mons {
		m.AfterInit(r)
	}
	return true
}

// consAddrOwner maps a consensus address to (operator index, key index).
func (r *Run) consAddrOwner(addr []byte) (int, int, bool) {
	for i, o := range r.W.Ops {
		for k, key := range o.ConsKeys {
			if string(key.PubKey().Address()) == string(addr) {
				return i, k, true
			}
		}
	}
	return 0, 0, false
}

// Execute runs the whole plan. It returns when the plan is exhausted, a violation was
// recorded, or the run had to be aborted.
func (r *Run) Execute() {
	// the repository prints debug lines to os.Stdout from consensus code (fmt.Println in the AVS
	// precompile and types); keep them out of the check's own output
	defer quietApp()()
	r.execute()
}

// quietApp diverts os.Stdout until the returned function is called.
func quietApp() func() {
	if os.Getenv("EXOSIM_APP_STDOUT") == "" {
		if dn, err := os.OpenFile(os.DevNull, os.O_WRONLY, 0); err == nil {
			saved := os.Stdout
			os.Stdout = dn
			return func() { os.Stdout = saved; dn.Close() }
		}
	}
	return func() {}
}

func (r *Run) execute() {
	if !r.Setup() {
		return
	}
	for bi := range r.Plan.Blocks {
		if r.Viol != nil || r.Stats.Aborted != "" {
			break
		}
		r.curBlock, r.curOp = bi, -1
		r.ExecBlock(bi, r.Plan.Blocks[bi])
	}
	if r.Viol == nil && r.Stats.Aborted == "" {
		r.phase = "finish"
		for _, m := range r.Mons {
			m.Finish(r)
		}
	}
	if r.Chain != nil {
		r.Stats.SimSeconds = int64(r.Chain.Time.Sub(r.W.GenesisTime) / time.Second)
	}
}

// ExecBlock executes one block of the plan on the primary node.
func (r *Run) ExecBlock(bi int, b Block) {
	c := r.Chain
	n := r.Node
	dt := time.Duration(b.DtNs)
	if dt < 0 {
		dt = 0
	}
	prop := b.Prop
	if !r.Cfg.ProposerAny && c.Height >= 1 {
		// trigger avoidance for a known finding: choose a proposer that the application can
		// resolve to a validator (any member of the set may propose in reality; see DESIGN)
		if vs := c.ValSets[c.Height+1]; vs != nil {
			vals := SortedVals(vs)
			cctx := n.CommittedCtx(c)
			for k := 0; k < len(vals); k++ {
				idx := (((prop + k) % len(vals)) + len(vals)) % len(vals)
				ok := false
				_ = guard("probe", func() { ok = n.App.StakingKeeper.ValidatorByConsAddr(cctx, sdk.ConsAddress(vals[idx].Address)) != nil })
				if ok {
					prop = idx
					break
				}
			}
		}
	} else if r.Cfg.ProposerAny {
		r.Probe("proposer_unrestricted")
	}
	hdr := c.NextHeader(dt, prop)
	h := hdr.Height
	// votes
	absent := map[string]bool{}
	if len(b.Absent) > 0 && h > 1 {
		if vs := c.ValSets[h-1]; vs != nil {
			for _, v := range vs.Validators {
				if oi, _, ok := r.consAddrOwner(v.Address); ok {
					for _, a := range b.Absent {
						if ((a%len(r.W.Ops))+len(r.W.Ops))%len(r.W.Ops) == oi {
							absent[string(v.Address)] = true
							r.Fault("missed_vote")
						}
					}
				}
			}
		}
	}
	// never let everybody be absent: CometBFT needs >2/3 to have produced the block
	if vs := c.ValSets[h-1]; vs != nil && len(absent) > 0 {
		var signed, total int64
		for _, v := range vs.Validators {
			total += v.VotingPower
			if !absent[string(v.Address)] {
				signed += v.VotingPower
			}
		}
		if signed*3 <= total*2 {
			// drop absences in address order until a supermajority signs
			vals := SortedVals(vs)
			for _, v := range vals {
				if signed*3 > total*2 {
					break
				}
				if absent[string(v.Address)] {
					delete(absent, string(v.Address))
					signed += v.VotingPower
					r.Stats.Faults["missed_vote"]--
				}
			}
		}
	}
	votes := c.Votes(h, absent)
	// evidence
	var evs []Evidence
	for _, e := range b.Evid {
		eh := h - e.Back
		if eh < 1 || eh >= h {
			continue
		}
		vs := c.ValSets[eh]
		if vs == nil {
			continue
		}
		o := r.W.Op(e.Op)
		key := o.ConsKeys[((e.Key%ConsKeyPool)+ConsKeyPool)%ConsKeyPool]
		addr := key.PubKey().Address()
		_, val := vs.GetByAddress(addr)
		if val == nil {
			r.Probe("evidence_skipped_not_in_set")
			continue
		}
		evs = append(evs, Evidence{ConsAddr: addr, Height: eh, Time: c.ValTimes[eh], Power: val.VotingPower, Total: vs.TotalVotingPower()})
		r.Fault("equivocation_evidence")
	}
	rec := &BlockRecord{Header: hdr, Height: h, Time: hdr.Time, Proposer: hdr.ProposerAddress, Votes: votes, Evidence: evs, LastAppHash: c.AppHash}
	c.CurHeader = hdr
	// optional CheckTx traffic before the block (mempool connection)
	// (handled by specific monitors through ops flagged in b.CheckTx)

	r.phase = "BeginBlock"
	bbRes, p := n.BeginBlock(c.BeginBlockRequest(hdr, votes, evs))
	if p != nil {
		r.onPanic(p)
		return
	}
	r.LastBegin = bbRes
	r.LastEvidence = evs
	if os.Getenv("EXOSIM_ORACLE_DUMP") != "" {
		fmt.Printf("---- primary after BeginBlock %d\n%s", h, oraclekeeper.VerifDumpDeliver())
	}
	r.PendingDogfoodUndelegations = nil
	if r.Node.App.StakingKeeper.IsEpochEnd(n.DeliverCtx(c)) {
		for _, k := range r.Node.App.StakingKeeper.GetPendingUndelegations(n.DeliverCtx(c)).List {
			r.PendingDogfoodUndelegations = append(r.PendingDogfoodUndelegations, string(k))
		}
	}
	ctx := n.DeliverCtx(c)
	r.phase = "AfterBeginBlock"
	for _, m := range r.Mons {
		m.AfterBeginBlock(r, ctx)
		if r.Viol != nil {
			return
		}
	}
	// interleaving measure: ordered pairs of consecutive operation outcomes inside a block, the
	// first one paired with the block's context (epoch end, evidence, absent votes, after restart)
	prevOutcome := "begin"
	for i := len(r.EpochCalls) - 1; i >= 0 && r.EpochCalls[i].Height == h; i-- {
		if r.EpochCalls[i].Kind == "end" && r.EpochCalls[i].Subscriber == 0 {
			prevOutcome = "begin+epochend"
			break
		}
	}
	if len(evs) > 0 {
		prevOutcome += "+evidence"
	}
	if len(absent) > 0 {
		prevOutcome += "+absent"
	}
	if bi > 0 && r.Plan.Blocks[bi-1].Restart {
		prevOutcome += "+restarted"
	}
	// transactions
	blockGasWanted := int64(0)
	for oi, op := range b.Ops {
		r.curOp = oi
		r.phase = "DeliverTx"
		ctx = n.DeliverCtx(c)
		if f, ok := directOps[op.K]; ok {
			r.phase = "DirectCall"
			f(r, ctx, op)
			r.Stats.OpOutcomes[op.K+":direct"]++
			r.curOp = oi
			r.phase = "AfterDirect"
			for _, m := range r.Mons {
				if da, ok := m.(DirectAware); ok && r.Viol == nil {
					da.AfterDirect(r, n.DeliverCtx(c), op)
				}
			}
			if r.Viol != nil || r.Stats.Aborted != "" {
				return
			}
			continue
		}
		bt, err := r.Build(ctx, op)
		if err != nil {
			r.Stats.OpOutcomes[op.K+":unbuildable"]++
			r.Logf("unbuildable %s: %v", op, err)
			continue
		}
		for _, ci := range b.CheckTx {
			if ci == oi {
				if _, p := n.CheckTx(bt.Bytes, false); p != nil {
					r.onPanic(p)
					return
				}
				r.Fault("checktx_interleaved")
			}
		}
		// an honest proposer never proposes more gas than the block limit (CometBFT reaps the
		// mempool by the gas wanted reported by CheckTx); the stub does the same
		if r.Cfg.BlockMaxGas > 0 {
			gw := int64(bt.GasLimit)
			if bt.Kind == "cosmos" {
				gw = 2_000_000
			}
			if blockGasWanted+gw > r.Cfg.BlockMaxGas {
				r.Stats.OpOutcomes[op.K+":not-proposed(block gas)"]++
				continue
			}
			blockGasWanted += gw
		}
		r.History = append(r.History, bt)
		r.phase = "BeforeTx"
		for _, m := range r.Mons {
			m.BeforeTx(r, ctx, bt)
		}
		r.phase = "DeliverTx"
		resp, p := n.DeliverTx(bt.Bytes)
		if p != nil {
			r.onPanic(p)
			return
		}
		rec.Txs = append(rec.Txs, bt.Bytes)
		rec.TxResults = append(rec.TxResults, resp)
		tr := r.decodeResult(bt, resp)
		tr.Height, tr.Block, tr.Index = h, bi, oi
		if os.Getenv("EXOSIM_TXLOG") != "" {
			fmt.Fprintf(os.Stderr, "TX h=%d %s ok=%v code=%d gasUsed=%d gasWanted=%d log=%s\n", h, op, tr.OK, resp.Code, resp.GasUsed, resp.GasWanted, firstN(firstLine(resp.Log), 200))
		}
		if tr.OK && bt.Creates != nil {
			r.Contracts = append(r.Contracts, *bt.Creates)
		}
		r.Results = append(r.Results, tr)
		r.Stats.Txs++
		outcome := op.K + ":fail"
		if tr.OK {
			r.Stats.TxOK++
			outcome = op.K + ":ok"
		}
		r.Stats.OpOutcomes[outcome]++
		r.State("seq:" + prevOutcome + ">" + outcome)
		prevOutcome = outcome
		ctx = n.DeliverCtx(c)
		r.phase = "AfterTx"
		for _, m := range r.Mons {
			m.AfterTx(r, ctx, tr)
			if r.Viol != nil {
				return
			}
		}
	}
	r.curOp = -1
	r.phase = "EndBlock"
	eb, p := n.EndBlock(h)
	if p != nil {
		r.onPanic(p)
		return
	}
	rec.ValUpdates = eb.ValidatorUpdates
	if r.Verbose {
		for _, t := range r.Results {
			if t.Height == h {
				r.Logf("  h=%d tx %s ok=%v code=%d %s", h, t.Op, t.OK, t.Resp.Code, firstN(firstLine(t.Resp.Log), 120))
			}
		}
		r.Logf("h=%d t=%s updates=%v absent=%d evid=%d", h, hdr.Time.Format("15:04:05.000"), eb.ValidatorUpdates, len(absent), len(evs))
		if os.Getenv("EXOSIM_NONCES") != "" {
			dctx := n.DeliverCtx(c)
			for _, o := range r.W.Ops {
				if k := r.activeConsKey(dctx, o); k != nil {
					v := sdk.ConsAddress(k.PubKey().Address()).String()
					nn, ok := n.App.OracleKeeper.GetNonce(dctx, v)
					r.Logf("   nonce op%d %s found=%v %v", o.Idx, v[len(v)-6:], ok, nn.NonceList)
				}
			}
		}
	}
	rec.ConsParams = eb.ConsensusParamUpdates
	if err := c.ApplyEndBlock(h, eb.ValidatorUpdates); err != nil {
		// the consensus engine would halt here
		if r.NoPanicGuard || r.Prop == "C06" {
			if !r.Violate("valset", "updates-accepted-by-consensus", normDigits(firstLine(err.Error())), err.Error()) {
				r.abort("known-finding-halt")
			}
		} else {
			r.abort("valset-rejected: " + err.Error())
		}
		return
	}
	ctx = n.DeliverCtx(c)
	r.phase = "AfterEndBlock"
	for _, m := range r.Mons {
		m.AfterEndBlock(r, ctx, eb)
		if r.Viol != nil {
			return
		}
	}
	r.phase = "Commit"
	cr, p := n.Commit()
	if p != nil {
		r.onPanic(p)
		return
	}
	rec.AppHash = cr.Data
	c.Committed(hdr, cr.Data)
	c.Blocks = append(c.Blocks, rec)
	r.Stats.Blocks++
	cctx := n.CommittedCtx(c)
	for _, m := range r.Mons {
		m.AfterCommit(r, cctx)
		if r.Viol != nil {
			return
		}
	}
	if b.Restart {
		r.phase = "Restart"
		n.Stop()
		if err := n.Start(); err != nil {
			if r.NoPanicGuard {
				r.Violate("liveness", "restart-succeeds", "restart", err.Error())
			} else {
				r.abort("restart: " + err.Error())
			}
			return
		}
		r.InstallEpochRecorders()
		r.Fault("clean_restart")
		if got := n.App.LastBlockHeight(); got != h {
			r.abort(fmt.Sprintf("harness: restart restored height %d want %d", got, h))
		}
	}
}

func firstLine(s string) string {
	if i := strings.IndexByte(s, '\n'); i >= 0 {
		return s[:i]
	}
	return s
}

var boolOutMethods = map[string]abi.Arguments{}

// decodeResult extracts the operation-level success verdict.
func (r *Run) decodeResult(bt *BuiltTx, resp abci.ResponseDeliverTx) *TxResult {
	tr := r.decodeResult0(bt, resp)
	if bt.CallMode != "" {
		r.Fault("gateway_frame_" + bt.CallMode)
		r.Probe(fmt.Sprintf("gateway-frame:%s:ok=%v", bt.CallMode, tr.OK))
	} else if bt.Reverting {
		r.Fault("gateway_frame_reverting")
	}
	return tr
}

func (r *Run) decodeResult0(bt *BuiltTx, resp abci.ResponseDeliverTx) *TxResult {
	tr := &TxResult{BuiltTx: bt, Resp: resp}
	if resp.Code != 0 {
		return tr
	}
	if bt.Kind != "eth" {
		tr.OK = true
		return tr
	}
	var msgData sdk.TxMsgData
	if err := msgData.Unmarshal(resp.Data); err != nil || len(msgData.MsgResponses) == 0 {
		return tr
	}
	var er evmtypes.MsgEthereumTxResponse
	if err := er.Unmarshal(msgData.MsgResponses[0].Value); err != nil {
		return tr
	}
	tr.EthResp = &er
	if er.VmError != "" {
		return tr
	}
	tr.OK = true
	// precompile calls: first 32 bytes are the success flag (the forwarder returns the inner
	// call's return data; a failed inner call returns nothing)
	if bt.To != nil && (isPrecompile(*bt.To) || bt.ViaForwarder) && bt.Method != "" {
		if len(er.Ret) >= 32 {
			f := er.Ret[31] == 1
			tr.Flag = &f
			tr.OK = f
		} else {
			tr.OK = false
		}
	}
	return tr
}

// ---------------------------------------------------------------------------
// serialisation helpers
// ---------------------------------------------------------------------------

// ReplayFile is the on-disk form of a (minimised) failing run.
type ReplayFile struct {
	Property  string     `json:"property"`
	Seed      uint64     `json:"seed"`
	Tier      string     `json:"tier"`
	Config    Config     `json:"config"`
	Plan      Plan       `json:"plan"`
	Violation *Violation `json:"violation"`
	Mutators  []string   `json:"genesis_mutators,omitempty"`
	Note      string     `json:"note,omitempty"`
}

func (p Plan) JSON() string { b, _ := json.Marshal(p); return string(b) }

func sortedKeys(m map[string]int) []string {
	ks := make([]string, 0, len(m))
	for k := range m {
		ks = append(ks, k)
	}
	sort.Strings(ks)
	return ks
}

var _ = tmproto.Header{}

// Ledger returns the ledger snapshot of the current observation point (cached per point).
func (r *Run) Ledger(ctx sdk.Context) *Ledger {
	tag := fmt.Sprintf("%d/%d/%s", r.curBlock, r.curOp, r.phase)
	if r.ledgerCache != nil && r.ledgerTag == tag {
		return r.ledgerCache
	}
	l, err := r.TakeLedger(ctx)
	if err != nil {
		r.abort("ledger-getter-error: " + err.Error())
		l = emptyLedger()
	}
	r.ledgerTag, r.ledgerCache = tag, l
	return l
}
