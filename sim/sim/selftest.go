package sim

import (
	"bufio"
	"bytes"
	"fmt"
	"os"
	"os/exec"
	"strconv"
)

// SelfTest checks harness determinism: the same seeds executed in separate processes under
// different GOMAXPROCS must produce byte-identical worker output (minus wall-clock fields).
func SelfTest(args []string) int {
	props := []string{}
	for id := range Registry {
		props = append(props, id)
	}
	n := 12
	if len(args) > 0 && args[0] == "--short" {
		n = 4
	}
	self, _ := os.Executable()
	bad := 0
	for _, id := range sortedStrings(props) {
		var ref []byte
		for _, procs := range []string{"1", "4", "16"} {
			cmd := exec.Command(self, "worker", "--prop", id, "--tier", "quick", "--seed", "7", "--from", "0", "--to", strconv.Itoa(n))
			cmd.Env = append(os.Environ(), "GOMAXPROCS="+procs, "EXOSIM_NOWALL=1")
			out, err := cmd.Output()
			if err != nil {
				fmt.Fprintf(os.Stderr, "selftest: worker for %s failed: %v\n", id, err)
				return 2
			}
			if ref == nil {
				ref = out
			} else if !bytes.Equal(ref, out) {
				bad++
				fmt.Fprintf(os.Stderr, "selftest: %s output differs between GOMAXPROCS=1 and %s\n", id, procs)
				a := bufio.NewScanner(bytes.NewReader(ref))
				b := bufio.NewScanner(bytes.NewReader(out))
				for a.Scan() && b.Scan() {
					if a.Text() != b.Text() {
						fmt.Fprintf(os.Stderr, "  first differing run:\n  %s\n  %s\n", firstN(a.Text(), 600), firstN(b.Text(), 600))
						break
					}
				}
			}
		}
	}
	if bad > 0 {
		fmt.Fprintln(os.Stderr, "HARNESS-ERROR (exit 2): determinism self-test failed")
		return 2
	}
	fmt.Printf("selftest ok: %d properties x %d seeds x 3 GOMAXPROCS settings, identical worker output\n", len(props), n)
	return 0
}

func sortedStrings(s []string) []string {
	m := map[string]int{}
	for _, x := range s {
		m[x] = 1
	}
	return sortedKeys(m)
}
