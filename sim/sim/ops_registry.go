package sim

import (
	"fmt"

	sdk "github.com/cosmos/cosmos-sdk/types"
	"github.com/ethereum/go-ethereum/common"
)

var extraTokenAddrs = []string{
	"0x1111111111111111111111111111111111111111",
	"0x2222222222222222222222222222222222222222",
	"0x3333333333333333333333333333333333333333",
	"0xdac17f958d2ee523a2206206994597c13d831ec7", // already registered
}

func init() {
	// regchain: D lz id choice, E address length, S name
	extraBuilders["regchain"] = func(r *Run, ctx sdk.Context, op Op) (*BuiltTx, error) {
		bt := &BuiltTx{Op: op, Method: "registerOrUpdateClientChain"}
		lz := []uint32{101, 102, 103, 0, 40161}[((op.D%5)+5)%5]
		alen := []uint8{20, 32, 0, 19, 255}[((op.E%5)+5)%5]
		name := op.S
		if name == "" {
			name = fmt.Sprintf("chain%d", lz)
		}
		data, err := ABI("assets").Pack(bt.Method, lz, alen, name, "meta", "ECDSA")
		if err != nil {
			return nil, err
		}
		return bt, r.gatewayCall(ctx, op, AssetsPrecompile, data, bt)
	}
	// regtoken: A token address choice, D lz choice, E decimals, S oracle info variant
	extraBuilders["regtoken"] = func(r *Run, ctx sdk.Context, op Op) (*BuiltTx, error) {
		bt := &BuiltTx{Op: op, Method: "registerToken"}
		lz := []uint32{101, 102, 103}[((op.D%3)+3)%3]
		addr := common.HexToAddress(extraTokenAddrs[((op.A%len(extraTokenAddrs))+len(extraTokenAddrs))%len(extraTokenAddrs)])
		dec := uint8(op.E)
		oi := op.S
		if oi == "" {
			oi = fmt.Sprintf("NEW%d,chain%d,8", op.A, lz)
		}
		name := fmt.Sprintf("NEW%d", op.A)
		if op.N == 1 {
			name = ""
		}
		data, err := ABI("assets").Pack(bt.Method, lz, pad32(addr.Bytes()), dec, name, "meta", oi)
		if err != nil {
			return nil, err
		}
		return bt, r.gatewayCall(ctx, op, AssetsPrecompile, data, bt)
	}
	extraBuilders["updtoken"] = func(r *Run, ctx sdk.Context, op Op) (*BuiltTx, error) {
		bt := &BuiltTx{Op: op, Method: "updateToken"}
		lz := []uint32{101, 102, 103}[((op.D%3)+3)%3]
		addr := common.HexToAddress(extraTokenAddrs[((op.A%len(extraTokenAddrs))+len(extraTokenAddrs))%len(extraTokenAddrs)])
		meta := op.S
		data, err := ABI("assets").Pack(bt.Method, lz, pad32(addr.Bytes()), meta)
		if err != nil {
			return nil, err
		}
		return bt, r.gatewayCall(ctx, op, AssetsPrecompile, data, bt)
	}
}

// registryOps generates registration traffic with valid and invalid inputs.
func registryOp(p *PRNG) Op {
	oracleInfos := []string{"", "ETH,Ethereum,8", "TOK0,Ethereum,8,10", "X,Y,notanumber", "X,Y", "NEWX,chain101,18,4,0xabc,ChainDesc:{c},TokenDesc:{t}", "NEWY,chain101,8,1"}
	switch p.Intn(3) {
	case 0:
		return Op{K: "regchain", D: p.Intn(5), E: p.Intn(5), S: []string{"", "x", "a-very-long-name-that-exceeds-the-maximum-length-of-fifty-characters-for-sure"}[p.Intn(3)]}
	case 1:
		return Op{K: "regtoken", A: p.Intn(4), D: p.Intn(3), E: []int{0, 6, 18, 19, 77}[p.Intn(5)], S: oracleInfos[p.Intn(len(oracleInfos))], N: int64(p.Intn(4) / 3)}
	default:
		return Op{K: "updtoken", A: p.Intn(4), D: p.Intn(3), S: []string{"new meta", ""}[p.Intn(2)]}
	}
}
