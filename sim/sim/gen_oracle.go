package sim

import "fmt"

// OracleGenOpts steers the oracle workload.
type OracleGenOpts struct {
	MinBlocks, MaxBlocks int
	Hostile              bool // forged signatures, outsiders, sizes, timestamps (C13)
	ValsetChanges        bool
	Restarts             bool
	CheckTx              bool
	HugePrices           bool // hostile supermajority values (C11): 1e29, negative, non-numeric, empty
	// ManySourceRounds: in half of the rounds the reporters spread over up to nine source rounds
	// (more distinct ones than a single validator may submit), mostly with the same value, so that
	// agreement on the VALUE without agreement on the SOURCE ROUND is common
	ManySourceRounds bool
}

// GenOraclePlan generates price submissions placed at every offset of the round windows.
func GenOraclePlan(p *PRNG, cfg Config, o OracleGenOpts) Plan {
	if o.MaxBlocks == 0 {
		o.MinBlocks, o.MaxBlocks = 30, 70
	}
	nb := p.Range(o.MinBlocks, o.MaxBlocks)
	var plan Plan
	nRefs := cfg.NOps + cfg.NStakers
	lz := int64(1)
	values := []string{"100", "101", "250", "99999", "1", "0", "7"}
	if o.HugePrices {
		values = append(values, "18446744073709551616", "123456789012345678901234567890", "-5", "abc", "")
	}
	truth := map[string]string{}
	storm := map[string]bool{}
	for bi := 0; bi < nb; bi++ {
		b := Block{DtNs: cfg.BlockSec * 1e9, Prop: p.Intn(8)}
		if p.Chance(1, 12) {
			b.DtNs = dogfoodEpochSecs(cfg) * 1e9
		}
		h := int64(bi + 1)
		// light ledger traffic so that validator powers move at epoch ends
		if o.ValsetChanges && p.Chance(1, 3) {
			switch p.Intn(5) {
			case 0:
				b.Ops = append(b.Ops, Op{K: "dep", A: p.Intn(nRefs), B: 0, Amt: depositSpec(p, false)})
			case 1:
				lz++
				b.Ops = append(b.Ops, Op{K: "del", A: p.Intn(nRefs), B: 0, C: p.Intn(cfg.NOps), Amt: "%700", N: lz})
			case 2:
				lz++
				b.Ops = append(b.Ops, Op{K: "und", A: 1 + p.Intn(nRefs-1), B: 0, C: p.Intn(cfg.NOps), Amt: amtSpec(p, false), N: lz})
			case 3:
				b.Ops = append(b.Ops, Op{K: "optin", A: p.Intn(cfg.NOps), D: p.Intn(ConsKeyPool)})
			case 4:
				b.Ops = append(b.Ops, Op{K: "optout", A: 1 + p.Intn(cfg.NOps-1)})
			}
		}
		for f := 1; f <= len(cfg.Assets); f++ {
			iv := int64(cfg.Assets[f-1].Interval)
			round := (h - 2) / iv
			tk := fmt.Sprintf("%d/%d", f, round)
			if _, ok := truth[tk]; !ok {
				truth[tk] = values[p.Intn(4)]
				if o.ManySourceRounds {
					storm[tk] = p.Chance(1, 2)
				}
			}
			for i := 0; i < cfg.NOps; i++ {
				if !p.Chance(2, 5) && !(storm[tk] && p.Chance(1, 2)) {
					continue
				}
				n := 1
				if p.Chance(1, 5) {
					n = p.Range(2, int(cfg.OracleMaxNonce)+1)
				}
				if storm[tk] && p.Chance(1, 2) {
					n = int(cfg.OracleMaxNonce)
				}
				for k := 0; k < n; k++ {
					op := Op{K: "price", A: i, B: f, S: truth[tk]}
					if p.Chance(1, 4) {
						op.S = values[p.Intn(len(values))]
					}
					if p.Chance(1, 8) {
						op.N = int64(p.Range(1, int(cfg.OracleMaxNonce)+2))
					}
					if p.Chance(1, 10) {
						op.E = []int{-1, 1, -int(iv), int(iv)}[p.Intn(4)]
					}
					if p.Chance(1, 6) {
						op.C = []int{-1, 1, 2}[p.Intn(3)]
					}
					if p.Chance(1, 10) {
						op.D = []int{4, 5, 6, 7, -3, 60}[p.Intn(6)]
					}
					if storm[tk] && p.Chance(4, 5) {
						op.C = p.Intn(9)
						if p.Chance(3, 4) {
							op.S = truth[tk]
						}
					}
					if o.Hostile && cfg.NOps > 1 && p.Chance(1, 20) {
						// one signer, two messages: the second attributed to another validator
						b.Ops = append(b.Ops, Op{K: "price2", A: i, C: (i + 1 + p.Intn(cfg.NOps-1)) % cfg.NOps, B: f, S: truth[tk]})
						continue
					}
					if o.Hostile {
						switch p.Intn(14) {
						case 0:
							op.M = int(SigGarbage)
						case 1:
							op.M = int(SigOtherKey)
						case 2:
							op.M = int(SigNone)
						case 3:
							op.M = int(SigWrongPub)
						case 4:
							op.C2 = 1 // outsider
						case 5:
							op.Amt2 = fmt.Sprintf("size:%d", []int{999, 1000, 1001, 1500}[p.Intn(4)])
						case 6:
							op.M = 100 // wrong source id
						case 7:
							op.E = 99 // wrong decimal
						case 8:
							op.M = int(SigNoSignerInfo)
						case 9:
							// the same report twice, the second time under the upper-case spelling
							b.Ops = append(b.Ops, op)
							op.C2 = 2
						}
					}
					b.Ops = append(b.Ops, op)
				}
			}
		}
		// shuffle the block's ops: arbitrary order and placement inside the block
		perm := p.Perm(len(b.Ops))
		ops := make([]Op, len(b.Ops))
		for i, j := range perm {
			ops[i] = b.Ops[j]
		}
		b.Ops = ops
		// duplicates (replayed bytes)
		if len(b.Ops) > 0 && p.Chance(1, 6) {
			b.Ops = append(b.Ops, Op{K: "replay", N: int64(p.Intn(1 << 20))})
		}
		if o.Restarts && p.Chance(1, 10) {
			b.Restart = true
		}
		if o.CheckTx && len(b.Ops) > 0 && p.Chance(1, 3) {
			b.CheckTx = []int{p.Intn(len(b.Ops))}
		}
		plan.Blocks = append(plan.Blocks, b)
	}
	return plan
}

func init() {
	// C11: validators (a supermajority) agreeing on hostile values, followed by the epoch ends that consume them
	extraHostile["oracle"] = func(p *PRNG, cfg Config, plan Plan) Plan {
		op := GenOraclePlan(NewPRNG(p.Uint64()), cfg, OracleGenOpts{MinBlocks: len(plan.Blocks), MaxBlocks: len(plan.Blocks), Hostile: true, HugePrices: cfg.HugeAmounts})
		hostile := []string{"0", "1", "1000000", "abc", "", "-5", "0x10", "1e3", " 7"}
		if cfg.HugeAmounts {
			hostile = append(hostile, "18446744073709551616", "123456789012345678901234567890")
		}
		for i := range plan.Blocks {
			if i < len(op.Blocks) {
				plan.Blocks[i].Ops = append(plan.Blocks[i].Ops, op.Blocks[i].Ops...)
			}
			if p.Chance(1, 5) {
				plan.Blocks[i].Ops = append(plan.Blocks[i].Ops, PriceRound(cfg.NOps, 1+p.Intn(len(cfg.Assets)), hostile[p.Intn(len(hostile))])...)
				// the node restarts while the hostile submissions are in its recovery window
				if p.Chance(1, 2) {
					plan.Blocks[i].Restart = true
				}
			}
		}
		return plan
	}
}
