package sim

import (
	"bytes"
	"fmt"
	"sort"
	"strings"

	abci "github.com/cometbft/cometbft/abci/types"
	sdk "github.com/cosmos/cosmos-sdk/types"
	"github.com/ethereum/go-ethereum/common/hexutil"

	operatortypes "github.com/ExocoreNetwork/exocore/x/operator/types"
)

// dogfoodEpochEnded reports whether this block's BeginBlock closed a dogfood epoch (from the
// recorded hook calls) and returns the number of the epoch that ended.
func (r *Run) dogfoodEpochEnded(h int64) (bool, int64) {
	for i := len(r.EpochCalls) - 1; i >= 0; i-- {
		c := r.EpochCalls[i]
		if c.Height != h {
			break
		}
		if c.Kind == "end" && c.ID == r.Cfg.DogfoodEpoch && c.Subscriber == 0 {
			return true, c.Number
		}
	}
	return false, 0
}

func (r *Run) dogfoodEpoch(ctx sdk.Context) int64 {
	e, _ := r.Node.App.EpochsKeeper.GetEpochInfo(ctx, r.Cfg.DogfoodEpoch)
	return e.CurrentEpoch
}

// ---------------------------------------------------------------------------
// C06 — validator updates are exactly the eligible top set
// ---------------------------------------------------------------------------

type c06Monitor struct {
	BaseMonitor
	epochEnd   bool
	EpochEnds  int
	Changes    int
	Ties       int
	OverMax    int
}

func (m *c06Monitor) Name() string { return "valset" }

func (m *c06Monitor) AfterBeginBlock(r *Run, ctx sdk.Context) {
	m.epochEnd, _ = r.dogfoodEpochEnded(ctx.BlockHeight())
}

type eligible struct {
	op    sdk.AccAddress
	addr  []byte
	power int64
}

func (m *c06Monitor) AfterEndBlock(r *Run, ctx sdk.Context, res abci.ResponseEndBlock) {
	h := ctx.BlockHeight()
	app := r.Node.App
	if !m.epochEnd {
		if len(res.ValidatorUpdates) != 0 {
			r.Violate(m.Name(), "no-updates-outside-epoch-closing-blocks", "non-empty", fmt.Sprintf("height %d does not close a dogfood epoch but returned %d validator updates", h, len(res.ValidatorUpdates)))
		}
		m.agreement(r, ctx, h)
		return
	}
	m.EpochEnds++
	if len(res.ValidatorUpdates) > 0 {
		m.Changes++
	}
	// duplicates / zero-power adds / unknown removals are rejected by the real ValidatorSet in
	// Chain.ApplyEndBlock (reported from ExecBlock). Here: the resulting set is the eligible top set.
	var el []eligible
	for _, o := range r.W.Ops {
		found, key, err := app.OperatorKeeper.GetOperatorConsKeyForChainID(ctx, o.Addr, r.W.ChainIDNoRev)
		if err != nil || !found || key == nil {
			continue
		}
		info, err := app.OperatorKeeper.GetOptedInfo(ctx, o.Addr.String(), r.W.DogfoodAVS)
		if err != nil || info == nil || info.OptedOutHeight != operatortypes.DefaultOptedOutHeight || info.Jailed {
			continue
		}
		usd, err := app.OperatorKeeper.GetOperatorOptedUSDValue(ctx, r.W.DogfoodAVS, o.Addr.String())
		if err != nil {
			continue
		}
		if usd.ActiveUSDValue.IsNegative() || usd.ActiveUSDValue.TruncateInt().BigInt().BitLen() > 62 {
			continue // out of the range this property is about (C11's findings)
		}
		p := usd.ActiveUSDValue.TruncateInt64()
		if p < 1 {
			continue
		}
		el = append(el, eligible{op: o.Addr, addr: key.ToConsAddr(), power: p})
	}
	sort.Slice(el, func(i, j int) bool {
		if el[i].power != el[j].power {
			return el[i].power > el[j].power
		}
		return bytes.Compare(el[i].op, el[j].op) < 0
	})
	for i := 1; i < len(el); i++ {
		if el[i].power == el[i-1].power {
			m.Ties++
			r.Probe("c06_power_tie")
			break
		}
	}
	maxV := int(app.StakingKeeper.GetMaxValidators(ctx))
	if len(el) > maxV {
		el = el[:maxV]
		m.OverMax++
		r.Probe("c06_more_eligible_than_max")
	}
	want := map[string]int64{}
	for _, e := range el {
		want[string(e.addr)] = e.power
	}
	got := map[string]int64{}
	if vs := r.Chain.ValSets[h+2]; vs != nil {
		for _, v := range vs.Validators {
			got[string(v.Address)] = v.VotingPower
		}
	}
	if d := diffSets(want, got); d != "" {
		r.Violate(m.Name(), "updates-yield-eligible-top-set", d[:strings.IndexByte(d, ':')], fmt.Sprintf("height %d closes a dogfood epoch; consensus set after applying the updates differs from the eligible top-%d set: %s; updates=%v", h, maxV, d, fmtUpdates(res.ValidatorUpdates)))
		return
	}
	m.agreement(r, ctx, h)
}

func fmtUpdates(u []abci.ValidatorUpdate) string {
	var s []string
	for _, x := range u {
		s = append(s, fmt.Sprintf("%x:%d", x.PubKey.GetEd25519()[:4], x.Power))
	}
	return strings.Join(s, ",")
}

func diffSets(want, got map[string]int64) string {
	keys := map[string]int{}
	for k := range want {
		keys[k] = 1
	}
	for k := range got {
		keys[k] = 1
	}
	for _, k := range sortedKeys(keys) {
		w, wok := want[k]
		g, gok := got[k]
		switch {
		case wok && !gok:
			return fmt.Sprintf("missing: eligible validator %x (power %d) not in the set", k, w)
		case !wok && gok:
			return fmt.Sprintf("extra: validator %x (power %d) in the set but not eligible / not in the top set", k, g)
		case w != g:
			return fmt.Sprintf("power: validator %x has power %d, expected %d", k, g, w)
		}
	}
	return ""
}

// agreement: stored validator set, stored total power and what consensus was told agree.
func (m *c06Monitor) agreement(r *Run, ctx sdk.Context, h int64) {
	app := r.Node.App
	stored := map[string]int64{}
	total := int64(0)
	for _, v := range app.StakingKeeper.GetAllExocoreValidators(ctx) {
		stored[string(v.Address)] = v.Power
		total += v.Power
	}
	got := map[string]int64{}
	if vs := r.Chain.ValSets[h+2]; vs != nil {
		for _, v := range vs.Validators {
			got[string(v.Address)] = v.VotingPower
		}
	}
	if d := diffSets(got, stored); d != "" {
		r.Violate(m.Name(), "stored-set-equals-consensus-set", d[:strings.IndexByte(d, ':')], fmt.Sprintf("height %d: stored validator set vs. the engine's set (want=engine, got=stored): %s", h, d))
		return
	}
	if lt := app.StakingKeeper.GetLastTotalPower(ctx); !lt.IsInt64() || lt.Int64() != total {
		r.Violate(m.Name(), "stored-total-power-equals-sum", "total", fmt.Sprintf("height %d: last total power %s, sum of stored validator powers %d", h, lt, total))
	}
}

// ---------------------------------------------------------------------------
// C07 — consensus key registry
// ---------------------------------------------------------------------------

type keyOwner struct {
	op           int   // operator index
	releaseEpoch int64 // dogfood epoch at whose end the lookup may be pruned (0 = still in use)
	wasActive    bool
	note         string // how the key stopped being the operator's current key
}

type c07Monitor struct {
	BaseMonitor
	owners    map[string]*keyOwner // consensus address -> model owner (current, replaced or removing keys)
	Replaced  int
	Pruned    int
	preRemoving map[int]bool
	preView     *regView
	removingUntil map[int]int64 // operator -> dogfood epoch at whose end its opt-out (started while validating) completes
}

func (m *c07Monitor) Name() string { return "key-registry" }

func (m *c07Monitor) AfterInit(r *Run) {
	m.owners = map[string]*keyOwner{}
	m.check(r, r.Node.DeliverCtx(r.Chain), "genesis")
}

type regView struct {
	cur     map[int][]byte // operator -> current cons addr
	prev    map[int][]byte
	rev     map[string]int // cons addr -> operator idx
	byChain map[int][]byte
	removing map[int]bool
}

func (m *c07Monitor) view(r *Run, ctx sdk.Context) *regView {
	app := r.Node.App
	v := &regView{cur: map[int][]byte{}, prev: map[int][]byte{}, rev: map[string]int{}, byChain: map[int][]byte{}, removing: map[int]bool{}}
	idx := map[string]int{}
	for i, o := range r.W.Ops {
		idx[o.Addr.String()] = i
		if found, key, _ := app.OperatorKeeper.GetOperatorConsKeyForChainID(ctx, o.Addr, r.W.ChainIDNoRev); found && key != nil {
			v.cur[i] = key.ToConsAddr()
		}
		if found, key, _ := app.OperatorKeeper.GetOperatorPrevConsKeyForChainID(ctx, o.Addr, r.W.ChainIDNoRev); found && key != nil {
			v.prev[i] = key.ToConsAddr()
		}
		v.removing[i] = app.OperatorKeeper.IsOperatorRemovingKeyFromChainID(ctx, o.Addr, r.W.ChainIDNoRev)
	}
	for _, o := range r.W.Ops {
		for _, k := range o.ConsKeys {
			addr := sdk.ConsAddress(k.PubKey().Address())
			if found, op := app.OperatorKeeper.GetOperatorAddressForChainIDAndConsAddr(ctx, r.W.ChainIDNoRev, addr); found {
				if i, ok := idx[op.String()]; ok {
					v.rev[string(addr)] = i
				} else {
					v.rev[string(addr)] = -1
				}
			}
		}
	}
	ops, keys := app.OperatorKeeper.GetOperatorsForChainID(ctx, r.W.ChainIDNoRev)
	for i, a := range ops {
		if j, ok := idx[a.String()]; ok && keys[i] != nil {
			v.byChain[j] = keys[i].ToConsAddr()
		}
	}
	return v
}

func (m *c07Monitor) check(r *Run, ctx sdk.Context, what string) *regView {
	v := m.view(r, ctx)
	// injectivity of current keys
	seen := map[string]int{}
	for _, i := range sortedIntKeys(v.cur) {
		a := string(v.cur[i])
		if j, dup := seen[a]; dup {
			r.Violate(m.Name(), "key-belongs-to-at-most-one-operator", "current-key-shared", fmt.Sprintf("%s: operators %d and %d both have current key %x", what, j, i, a))
			return v
		}
		seen[a] = i
	}
	// agreement of the three indexes
	for _, i := range sortedIntKeys(v.cur) {
		a := v.cur[i]
		if b, ok := v.byChain[i]; !ok || !bytes.Equal(a, b) {
			r.Violate(m.Name(), "indexes-agree", "operator-key-vs-chain-index", fmt.Sprintf("%s: operator %d has key %x but the chain->operator->key index has %x", what, i, a, b))
			return v
		}
		if j, ok := v.rev[string(a)]; !ok || j != i {
			r.Violate(m.Name(), "indexes-agree", "operator-key-vs-reverse-lookup", fmt.Sprintf("%s: operator %d has key %x (removing=%v) but the consensus-address->operator lookup gives %v (present=%v)", what, i, a, v.removing[i], j, ok))
			return v
		}
	}
	for _, i := range sortedIntKeys(v.byChain) {
		if a, ok := v.cur[i]; !ok || !bytes.Equal(a, v.byChain[i]) {
			r.Violate(m.Name(), "indexes-agree", "chain-index-vs-operator-key", fmt.Sprintf("%s: chain index lists operator %d with key %x but operator->key gives %x", what, i, v.byChain[i], a))
			return v
		}
	}
	// a reverse lookup must point to an operator that owns / owned that key
	for _, a := range sortedKeysAnyInt(v.rev) {
		i := v.rev[a]
		if i < 0 {
			r.Violate(m.Name(), "indexes-agree", "reverse-lookup-unknown-operator", fmt.Sprintf("%s: consensus address %x resolves to an unknown operator", what, a))
			return v
		}
		isCur := bytes.Equal(v.cur[i], []byte(a))
		if !isCur {
			if ow, ok := m.owners[a]; !ok || ow.op != i {
				r.Violate(m.Name(), "key-belongs-to-at-most-one-operator", "stale-reverse-lookup", fmt.Sprintf("%s: consensus address %x resolves to operator %d which neither holds it now nor is recorded as having replaced/removed it", what, a, i))
				return v
			}
		}
	}
	// an opt-out started while validating is pending until the block that closes its epoch
	cur := r.dogfoodEpoch(ctx)
	for _, oi := range sortedIntKeysB(m.removingUntil) {
		until := m.removingUntil[oi]
		if cur > until {
			delete(m.removingUntil, oi)
			continue
		}
		if ended, num := r.dogfoodEpochEnded(ctx.BlockHeight()); ended && num >= until {
			continue // completes in this block's EndBlock
		}
		if !v.removing[oi] {
			r.Violate(m.Name(), "opt-out-of-validating-operator-stays-pending-until-unbonded", what[:strings.IndexAny(what+":", ":")], fmt.Sprintf("%s: operator %d opted out while one of its keys was in the validator set (pending until the end of epoch %d, current epoch %d) but is no longer marked as removing its key: it can set a new key and its undelegations are not held", what, oi, until, cur))
			return v
		}
	}
	return v
}

func sortedIntKeysB(m map[int]int64) []int {
	var ks []int
	for k := range m {
		ks = append(ks, k)
	}
	sort.Ints(ks)
	return ks
}

func sortedIntKeys(m map[int][]byte) []int {
	var ks []int
	for k := range m {
		ks = append(ks, k)
	}
	sort.Ints(ks)
	return ks
}

func sortedKeysAnyInt(m map[string]int) []string {
	ks := make([]string, 0, len(m))
	for k := range m {
		ks = append(ks, k)
	}
	sort.Strings(ks)
	return ks
}

func (m *c07Monitor) BeforeTx(r *Run, ctx sdk.Context, tx *BuiltTx) {
	v := m.view(r, ctx)
	m.preRemoving = v.removing
	m.preView = v
}

func (m *c07Monitor) AfterTx(r *Run, ctx sdk.Context, tx *TxResult) {
	pre := m.preView
	k := tx.Op.K
	if tx.Note == "replay" {
		k = map[string]string{"OptIntoAVS": "optin", "OptOutOfAVS": "optout", "SetConsKey": "setkey"}[tx.Method]
	}
	oi := -1
	if k == "optin" || k == "optout" || k == "setkey" {
		for i, o := range r.W.Ops {
			if o.Addr.Equals(tx.Operator) {
				oi = i
			}
		}
	}
	if oi >= 0 && tx.OK && pre != nil {
		epoch := r.dogfoodEpoch(ctx)
		n := int64(r.Node.App.StakingKeeper.GetEpochsUntilUnbonded(ctx))
		switch k {
		case "setkey", "optin":
			if pre.removing[oi] {
				r.Violate(m.Name(), "removing-operator-cannot-set-key", k, fmt.Sprintf("operator %d is removing its key but %s succeeded", oi, k))
				return
			}
			post := m.view(r, ctx)
			if old, had := pre.cur[oi]; had && !bytes.Equal(old, post.cur[oi]) {
				// replacement: the old key stays resolvable until the end of epoch+N if it was active
				_, act := r.Node.App.StakingKeeper.GetExocoreValidator(ctx, old)
				if ow := m.owners[string(old)]; ow == nil || ow.op != oi || ow.releaseEpoch == 0 {
					was := act || (ow != nil && ow.wasActive)
					note := "replaced-while-in-stored-set"
					if !act {
						note = "replaced-after-leaving-stored-set"
					}
					m.owners[string(old)] = &keyOwner{op: oi, releaseEpoch: epoch + n, wasActive: was, note: note}
				}
				m.Replaced++
			}
			if cur, ok := post.cur[oi]; ok {
				// (re)acquired as the current key
				was := false
				if ow := m.owners[string(cur)]; ow != nil && ow.op == oi {
					was = ow.wasActive
				}
				m.owners[string(cur)] = &keyOwner{op: oi, wasActive: was}
			}
		case "optout":
			// an operator that opts out while one of its keys is in the stored validator set keeps
			// validating until the unbonding epochs end: its removal stays pending until then
			for _, val := range r.Node.App.StakingKeeper.GetAllExocoreValidators(ctx) {
				if vo, ok := pre.rev[string(val.Address)]; ok && vo == oi {
					if m.removingUntil == nil {
						m.removingUntil = map[int]int64{}
					}
					m.removingUntil[oi] = epoch + n
				}
			}
			if cur, ok := pre.cur[oi]; ok {
				_, act := r.Node.App.StakingKeeper.GetExocoreValidator(ctx, cur)
				was := act
				if ow := m.owners[string(cur)]; ow != nil && ow.wasActive {
					was = true
				}
				note := "opted-out-while-in-stored-set"
				if !act {
					note = "opted-out-after-leaving-stored-set"
				}
				m.owners[string(cur)] = &keyOwner{op: oi, releaseEpoch: epoch + n, wasActive: was, note: note}
			}
		}
	}
	m.check(r, ctx, "tx:"+tx.Op.K)
}

func (m *c07Monitor) AfterBeginBlock(r *Run, ctx sdk.Context) { m.check(r, ctx, "begin-block") }

func (m *c07Monitor) AfterEndBlock(r *Run, ctx sdk.Context, _ abci.ResponseEndBlock) {
	v := m.check(r, ctx, "end-block")
	if r.Viol != nil {
		return
	}
	h := ctx.BlockHeight()
	ended, num := r.dogfoodEpochEnded(h)
	app := r.Node.App
	// slashability: every consensus address in the engine's current sets resolves to its operator
	for _, hh := range []int64{h, h + 1} {
		vs := r.Chain.ValSets[hh]
		if vs == nil {
			continue
		}
		for _, val := range vs.Validators {
			a := string(val.Address)
			ow := m.owners[a]
			if ow == nil {
				// genesis key: owner by key pool
				if oi, _, ok := r.consAddrOwner(val.Address); ok {
					ow = &keyOwner{op: oi, wasActive: true}
					m.owners[a] = ow
				} else {
					continue
				}
			}
			ow.wasActive = true
		}
	}
	for _, a := range sortedOwnerKeys(m.owners) {
		ow := m.owners[a]
		if !ow.wasActive {
			continue
		}
		matured := ow.releaseEpoch != 0 && ended && num >= ow.releaseEpoch
		alreadyGone := ow.releaseEpoch != 0 && !ended && r.dogfoodEpoch(ctx) > ow.releaseEpoch
		j, present := v.rev[a]
		if ow.releaseEpoch == 0 || (!matured && !alreadyGone) {
			// must still be resolvable and slashable through the staking interface
			if present && j == ow.op {
				var val interface{}
				_ = guard("probe", func() { val = app.StakingKeeper.ValidatorByConsAddr(ctx, sdk.ConsAddress([]byte(a))) })
				if val == nil {
					r.Probe("c07_lookup_present_but_staking_interface_nil")
					disc := "current-key"
					if ow.note != "" {
						disc = ow.note
					}
					if r.Violate(m.Name(), "resolvable-key-is-slashable-through-staking-interface", disc, fmt.Sprintf("height %d: consensus address %x of operator %d (release epoch %d, current epoch %d, %s) resolves to its operator but ValidatorByConsAddr returns nothing, so evidence and downtime for it are dropped", h, a, ow.op, ow.releaseEpoch, r.dogfoodEpoch(ctx), ow.note)) {
						return
					}
				}
			}
			if !present || j != ow.op {
				disc := "lookup-missing"
				if ow.note != "" {
					disc = ow.note
				}
				stop := r.Violate(m.Name(), "active-key-stays-resolvable-until-unbonded", disc, fmt.Sprintf("height %d: consensus address %x of operator %d was in the validator set (release epoch %d, current epoch %d) but resolves to %v (present=%v)", h, a, ow.op, ow.releaseEpoch, r.dogfoodEpoch(ctx), j, present))
				if stop {
					return
				}
				delete(m.owners, a) // known finding: resynchronise the model (the lookup is gone)
			}
			continue
		}
		// matured: pruned now (unless the same operator holds it again as its current key)
		if present && !bytes.Equal(v.cur[j], []byte(a)) {
			r.Violate(m.Name(), "matured-key-is-pruned", "not-pruned", fmt.Sprintf("height %d: consensus address %x of operator %d matured at the end of epoch %d but still resolves to operator %d", h, a, ow.op, ow.releaseEpoch, j))
			return
		}
		if !present {
			m.Pruned++
			delete(m.owners, a)
		}
	}
	_ = app
}

func sortedOwnerKeys(m map[string]*keyOwner) []string {
	ks := make([]string, 0, len(m))
	for k := range m {
		ks = append(ks, k)
	}
	sort.Strings(ks)
	return ks
}

var _ = hexutil.Encode
