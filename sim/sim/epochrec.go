package sim

import (
	"reflect"

	sdk "github.com/cosmos/cosmos-sdk/types"
	"github.com/ethereum/go-ethereum/common"

	epochstypes "github.com/ExocoreNetwork/exocore/x/epochs/types"
)

// EpochCall is one recorded invocation of an epoch hook on one real subscriber.
type EpochCall struct {
	Height     int64
	Subscriber int    // position in the subscriber slice
	SubType    string // concrete Go type of the real subscriber
	Kind       string // "end" | "start"
	ID         string
	Number     int64
	Seq        int // global sequence number of the call
}

type epochRecorder struct {
	inner epochstypes.EpochHooks
	run   *Run
	pos   int
	typ   string
}

func (e epochRecorder) AfterEpochEnd(ctx sdk.Context, id string, n int64) {
	e.run.EpochCalls = append(e.run.EpochCalls, EpochCall{Height: ctx.BlockHeight(), Subscriber: e.pos, SubType: e.typ, Kind: "end", ID: id, Number: n, Seq: len(e.run.EpochCalls)})
	e.inner.AfterEpochEnd(ctx, id, n)
}

func (e epochRecorder) BeforeEpochStart(ctx sdk.Context, id string, n int64) {
	e.run.EpochCalls = append(e.run.EpochCalls, EpochCall{Height: ctx.BlockHeight(), Subscriber: e.pos, SubType: e.typ, Kind: "start", ID: id, Number: n, Seq: len(e.run.EpochCalls)})
	e.inner.BeforeEpochStart(ctx, id, n)
}

// InstallEpochRecorders wraps the real epoch subscribers in place (the hooks value is a
// slice shared by every copy of the epochs keeper), so the real subscribers run in their
// real order and every call is recorded. No repository hook is needed for this.
func (r *Run) InstallEpochRecorders() {
	h, ok := r.Node.App.EpochsKeeper.Hooks().(epochstypes.MultiEpochHooks)
	if !ok {
		return
	}
	r.SubscriberTypes = nil
	for i := range h {
		if _, already := h[i].(epochRecorder); already {
			continue
		}
		t := reflect.TypeOf(h[i]).PkgPath() + "." + reflect.TypeOf(h[i]).Name()
		r.SubscriberTypes = append(r.SubscriberTypes, t)
		h[i] = epochRecorder{inner: h[i], run: r, pos: i, typ: t}
	}
}

func isPrecompile(a common.Address) bool {
	switch a {
	case AssetsPrecompile, DelegationPrecompile, RewardPrecompile, SlashPrecompile, AVSPrecompile:
		return true
	}
	return false
}
