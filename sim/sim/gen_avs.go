package sim

import "fmt"

// AVSGenOpts steers the AVS workload generator.
type AVSGenOpts struct {
	MinBlocks, MaxBlocks int
	Overlay              bool // only produce the per-block AVS ops (for overlaying on another plan)
	Restarts             bool
}

// avsOp draws one AVS operation. Arguments are biased towards the satisfiable case; every
// argument also takes its unsatisfiable values with small probability.
func avsOp(p *PRNG, cfg Config, early bool) Op {
	w := []int{3, 1, 1, 3, 5, 2, 1, 5, 12, 4}
	if early {
		w = []int{8, 0, 0, 8, 8, 3, 0, 2, 1, 0}
	}
	nAVS := 3
	switch p.Weighted(w) {
	case 0: // register
		op := Op{K: "avsreg", A: p.Intn(nAVS)}
		op.C = op.A
		if p.Chance(1, 4) {
			op.C = p.Intn(nAVS) // possibly somebody else's task address
		}
		op.D = p.Intn(3)
		if p.Chance(1, 10) {
			op.D = 3 + p.Intn(3)
		}
		op.E = p.Intn(7)
		if p.Chance(1, 2) {
			op.E = 0
		}
		if p.Chance(1, 8) {
			// an operator registers itself as an AVS (with a minimum it may or may not meet)
			op.A = 100 + p.Intn(cfg.NOps)
			op.C = op.A
			op.E = []int{0, 2, 3, 4}[p.Intn(4)]
		}
		if p.Chance(1, 4) {
			op.B = 1 + p.Intn(7)
		}
		if p.Chance(1, 12) {
			op.B |= 0x80
		}
		if p.Chance(1, 10) {
			op.M = 1 + p.Intn(2)
		}
		if p.Chance(1, 12) {
			op.S = "-"
		}
		if p.Chance(1, 6) {
			op.N = int64(p.Range(-1, 3))
		}
		return op
	case 1: // update
		op := Op{K: "avsupd", A: p.Intn(nAVS), C: p.Intn(nAVS), D: p.Intn(6), E: p.Intn(7), B: p.Intn(8)}
		if p.Chance(1, 2) {
			op.C = op.A
			op.D = 5 // keep the epoch identifier
		}
		if p.Chance(1, 6) {
			op.M = 1 + p.Intn(4)
		}
		if p.Chance(1, 4) {
			op.S = "renamed"
		}
		return op
	case 2:
		op := Op{K: "avsdereg", A: p.Intn(nAVS)}
		if p.Chance(1, 4) {
			op.S = "wrong-name"
		}
		if p.Chance(1, 4) {
			op.M = 1
		}
		return op
	case 3:
		op := Op{K: "blsreg", C: p.Intn(cfg.NOps)}
		if p.Chance(1, 6) {
			op.D = 1
		}
		if p.Chance(1, 6) {
			op.E = 1 + p.Intn(4)
		}
		if p.Chance(1, 5) {
			op.M, op.A = 1, p.Intn(3) // sent by somebody else in the operator's name
		}
		return op
	case 4:
		op := Op{K: "avsopt", A: p.Intn(nAVS), C: p.Intn(cfg.NOps)}
		if p.Chance(1, 12) {
			op.C = cfg.NOps + p.Intn(3) // not an operator
		}
		if p.Chance(1, 6) {
			op.M = 1
		}
		if p.Chance(1, 4) && op.C < cfg.NOps {
			op.A = 100 + op.C // the operator calls the precompile itself, as the AVS it registered
		}
		return op
	case 5:
		op := Op{K: "optin", A: p.Intn(cfg.NOps), S: []string{"avs:0", "avs:1", "avs:2"}[p.Intn(3)]}
		if p.Chance(1, 8) {
			op.S = []string{"avsl:0", "avsl:1", "avsl:2"}[p.Intn(3)]
		}
		return op
	case 6:
		return Op{K: "optout", A: p.Intn(cfg.NOps), S: []string{"avs:0", "avs:1", "avs:2"}[p.Intn(3)]}
	case 7:
		op := Op{K: "avstask", A: p.Intn(nAVS), D: p.Intn(3), E: p.Intn(3), N: int64(p.Intn(3))}
		if p.Chance(1, 3) {
			op.D, op.E, op.N = 1, 1, 1
		}
		if p.Chance(1, 10) {
			op.M = 1
		}
		if p.Chance(1, 15) {
			op.S = "-"
		}
		return op
	case 8:
		op := Op{K: "avsres", A: p.Intn(cfg.NOps), B: p.Intn(nAVS), M: 1 + p.Intn(2), D: 7}
		if p.Chance(1, 8) {
			op.D = p.Intn(3)
		}
		if p.Chance(1, 5) {
			op.N = int64(-p.Intn(3)) // older tasks
		}
		if p.Chance(1, 20) {
			op.N = int64(1 + p.Intn(2)) // task that does not exist yet
		}
		if p.Chance(1, 5) {
			op.E = 1 + p.Intn(10)
		}
		if p.Chance(1, 12) {
			op.C = 1
		}
		if p.Chance(1, 25) {
			op.M = p.Intn(4)
		}
		return op
	default:
		op := Op{K: "avschal", A: p.Intn(cfg.NOps), B: p.Intn(nAVS), D: p.Intn(3)}
		if p.Chance(1, 3) {
			op.N = int64(-p.Intn(3))
		}
		if p.Chance(1, 6) {
			op.E = 1 + p.Intn(3)
		}
		return op
	}
}

// GenAVSPlan generates a plan whose block times advance the AVS epoch every one to four blocks,
// so task windows (0-2 epochs each) open and close many times per run.
func GenAVSPlan(p *PRNG, cfg Config, o AVSGenOpts) Plan {
	if o.MaxBlocks == 0 {
		o.MinBlocks, o.MaxBlocks = 30, 70
	}
	nb := p.Range(o.MinBlocks, o.MaxBlocks)
	epoch := dogfoodEpochSecs(cfg)
	nRefs := cfg.NOps + cfg.NStakers
	var plan Plan
	pace := []int64{1, 2, 4}[p.Intn(3)] // blocks per epoch, roughly
	lz := int64(1000)
	g := newAVSGen(cfg)
	elapsed := int64(0)
	for bi := 0; bi < nb; bi++ {
		b := Block{DtNs: epoch * 1e9 / pace, Prop: p.Intn(8)}
		switch p.Intn(10) {
		case 0:
			b.DtNs = epoch*1e9 + 1
		case 1:
			b.DtNs = epoch * 1e9 // exactly one epoch later
		case 2:
			b.DtNs = int64(p.Range(1, 5)) * 1e9
		case 3:
			b.DtNs = epoch * int64(p.Range(2, 3)) * 1e9
		}
		elapsed += b.DtNs
		early := bi < 4
		nops := p.Intn(5)
		if early {
			nops += 3
		}
		for k := 0; k < nops; k++ {
			if !early && p.Chance(1, 6) {
				// the stake under the AVS moves too
				switch p.Intn(4) {
				case 0:
					b.Ops = append(b.Ops, Op{K: "dep", A: p.Intn(nRefs), B: p.Intn(len(cfg.Assets)), Amt: depositSpec(p, false)})
				case 1:
					lz++
					b.Ops = append(b.Ops, Op{K: "del", A: p.Intn(nRefs), B: p.Intn(len(cfg.Assets)), C: p.Intn(cfg.NOps), Amt: amtSpec(p, false), N: lz})
				case 2:
					lz++
					a := 1 + p.Intn(nRefs-1)
					b.Ops = append(b.Ops, Op{K: "und", A: a, B: p.Intn(len(cfg.Assets)), C: p.Intn(cfg.NOps), Amt: amtSpec(p, false), N: lz})
				default:
					b.Ops = append(b.Ops, Op{K: "assoc", A: p.Intn(nRefs), C: p.Intn(cfg.NOps), D: p.Intn(len(cfg.Chains))})
				}
				continue
			}
			if p.Chance(2, 3) {
				b.Ops = append(b.Ops, g.next(p, elapsed))
			} else {
				b.Ops = append(b.Ops, g.note(avsOp(p, cfg, early), elapsed))
			}
		}
		if o.Restarts && p.Chance(1, 12) {
			b.Restart = true
		}
		plan.Blocks = append(plan.Blocks, b)
	}
	return plan
}

func init() {
	// AVS traffic overlaid on other properties' plans (C08 determinism, C09/C10 atomicity and
	// authorisation, C11 liveness)
	extraHostile["avs"] = func(p *PRNG, cfg Config, plan Plan) Plan {
		g := newAVSGen(cfg)
		elapsed := int64(0)
		for i := range plan.Blocks {
			elapsed += plan.Blocks[i].DtNs
			early := i < 3
			if early || p.Chance(1, 2) {
				n := 1 + p.Intn(3)
				for k := 0; k < n; k++ {
					if p.Chance(2, 3) {
						plan.Blocks[i].Ops = append(plan.Blocks[i].Ops, g.next(p, elapsed))
					} else {
						plan.Blocks[i].Ops = append(plan.Blocks[i].Ops, g.note(avsOp(p, cfg, early), elapsed))
					}
				}
			}
		}
		return plan
	}
}

// avsGen is the generator's own rough picture of what its earlier operations probably
// achieved; it only steers the choice of the next operation towards satisfiable ones (the
// monitors never look at it).
type avsGenTask struct {
	avs                 int
	n                   int // ordinal among the AVS's tasks (1-based)
	start               int64
	resp, stat, chall   int64
	stage               map[int]int // operator -> 1 / 2 / 3 (challenged)
}

type avsGen struct {
	cfg    Config
	regd   map[int]int   // avs user -> epoch identifier choice
	regAt  map[int]int64
	bls    map[int]bool
	opted  map[int]map[int]int64 // avs -> operator -> epoch estimate at opt-in
	tasks  []*avsGenTask
	ntasks map[int]int
	self   map[int]bool // operators that registered themselves as an AVS
}

func newAVSGen(cfg Config) *avsGen {
	return &avsGen{cfg: cfg, regd: map[int]int{}, regAt: map[int]int64{}, bls: map[int]bool{}, opted: map[int]map[int]int64{}, ntasks: map[int]int{}, self: map[int]bool{}}
}

func (g *avsGen) epochDur(choice int) int64 {
	switch avsEpochChoice(g.cfg, choice) {
	case "minute":
		return 60
	case "hour":
		return 3600
	}
	return dogfoodEpochSecs(g.cfg)
}

func (g *avsGen) epochOf(avs int, elapsedNs int64) int64 {
	return elapsedNs / 1e9 / g.epochDur(g.regd[avs])
}

// note records the probable effect of an operation the generator emits.
func (g *avsGen) note(op Op, elapsed int64) Op {
	if op.A >= 100 && (op.K == "avsreg" || op.K == "avsupd" || op.K == "avsdereg" || op.K == "avsopt" || op.K == "avstask") {
		return op // an operator acting as its own AVS: outside the guide's three identities
	}
	a := ((op.A % 3) + 3) % 3
	switch op.K {
	case "avsreg":
		if _, ok := g.regd[a]; !ok && op.M != 1 && op.S != "-" && op.D < 4 && op.B&0x80 == 0 && op.N >= 0 && ((op.C%3)+3)%3 == a {
			g.regd[a] = op.D
			g.regAt[a] = elapsed
		}
	case "avsdereg":
		if op.S == "" && op.M == 0 {
			delete(g.regd, a)
			delete(g.opted, a)
		}
	case "blsreg":
		if op.E == 0 {
			if _, ok := g.bls[op.C]; !ok {
				g.bls[op.C] = op.D%2 == 0
			}
		}
	case "optin", "optout":
		var n int
		if _, err := fmt.Sscanf(op.S, "avs:%d", &n); err == nil && n >= 0 && n < 3 {
			if _, ok := g.regd[n]; ok && op.A >= 0 && op.A < g.cfg.NOps {
				if op.K == "optin" {
					if g.opted[n] == nil {
						g.opted[n] = map[int]int64{}
					}
					if _, ok := g.opted[n][op.A]; !ok {
						g.opted[n][op.A] = g.epochOf(n, elapsed)
					}
				} else if g.opted[n] != nil {
					delete(g.opted[n], op.A)
				}
			}
		}
	case "avsopt":
		// the AVS accounts of this workload are not the operators they name, so the precompile refuses
		// these calls (the operator must be the signer): the guide's picture does not change
	case "avstask":
		if _, ok := g.regd[a]; ok && op.M == 0 && op.S != "-" && len(g.opted[a]) > 0 {
			g.ntasks[a]++
			g.tasks = append(g.tasks, &avsGenTask{avs: a, n: g.ntasks[a], start: g.epochOf(a, elapsed) + 1, resp: int64(op.D), stat: int64(op.E), chall: op.N, stage: map[int]int{}})
		}
	}
	return op
}

func (g *avsGen) next(p *PRNG, elapsed int64) Op {
	cfg := g.cfg
	// setup first
	if len(g.regd) == 0 || (len(g.regd) < 3 && p.Chance(1, 6)) {
		for a := 0; a < 3; a++ {
			if _, ok := g.regd[a]; !ok {
				op := Op{K: "avsreg", A: a, C: a, D: p.Intn(3), E: []int{0, 0, 0, 0, 0, 0, 0, 2, 3, 0, 5, 6}[p.Intn(12)]}
				if p.Chance(1, 4) {
					op.B = 1 + p.Intn(7)
				}
				return g.note(op, elapsed)
			}
		}
	}
	for o := 0; o < cfg.NOps; o++ {
		if _, ok := g.bls[o]; !ok && p.Chance(1, 2) {
			return g.note(Op{K: "blsreg", C: o}, elapsed)
		}
	}
	if p.Chance(1, 14) {
		// an operator as its own AVS: register (with a minimum it may not meet), then opt itself in
		// through the precompile (the one precompile opt-in whose operator is the signer)
		k := p.Intn(cfg.NOps)
		if !g.self[k] {
			g.self[k] = true
			return Op{K: "avsreg", A: 100 + k, C: 100 + k, D: p.Intn(2), E: []int{0, 2, 3, 4}[p.Intn(4)]}
		}
		return Op{K: "avsopt", A: 100 + k, C: k, M: []int{0, 0, 0, 1}[p.Intn(4)]}
	}
	var avss []int
	for a := 0; a < 3; a++ {
		if _, ok := g.regd[a]; ok {
			avss = append(avss, a)
		}
	}
	if len(avss) == 0 {
		return g.note(avsOp(p, cfg, true), elapsed)
	}
	a := avss[p.Intn(len(avss))]
	if len(g.opted[a]) == 0 || (len(g.opted[a]) < cfg.NOps && p.Chance(1, 5)) {
		o := p.Intn(cfg.NOps)
		if !p.Chance(1, 6) {
			return g.note(Op{K: "optin", A: o, S: []string{"avs:0", "avs:1", "avs:2"}[a]}, elapsed)
		}
		return g.note(Op{K: "avsopt", A: a, C: o}, elapsed)
	}
	// live tasks of this AVS
	e := g.epochOf(a, elapsed)
	var live []*avsGenTask
	for _, t := range g.tasks {
		if t.avs == a && e <= t.start+t.resp+t.stat+t.chall+1 {
			live = append(live, t)
		}
	}
	if len(live) == 0 || p.Chance(1, 5) {
		// a task needs a positive AVS value, which is computed at the AVS epoch end after the opt-in
		op := Op{K: "avstask", A: a, D: p.Intn(3), E: p.Intn(3), N: int64(p.Intn(3))}
		if p.Chance(1, 2) && len(live) > 0 {
			// same windows as a live task created in this epoch: their statistics end together
			t := live[len(live)-1]
			op.D, op.E, op.N = int(t.resp), int(t.stat), t.chall
		}
		return g.note(op, elapsed)
	}
	t := live[p.Intn(len(live))]
	o := p.Intn(cfg.NOps)
	back := int64(g.ntasks[a] - t.n) // 0 = latest
	op := Op{K: "avsres", A: o, B: a, D: 7, N: -back}
	if !g.bls[o] {
		op.C = 1
	}
	switch {
	case e <= t.start+t.resp && t.stage[o] == 0:
		op.M = 1
		t.stage[o] = 1
	case e <= t.start+t.resp:
		op.M = 1 + p.Intn(2) // too early for phase two / phase one again
	case e <= t.start+t.resp+t.stat:
		op.M = 2
		if t.stage[o] == 1 {
			t.stage[o] = 2
		}
	default:
		// challenge an operator that probably revealed its response
		for _, cand := range p.Perm(cfg.NOps) {
			if t.stage[cand] == 2 {
				o = cand
				break
			}
		}
		if t.stage[o] == 2 && p.Chance(3, 4) {
			t.stage[o] = 3
		}
		op = Op{K: "avschal", A: o, B: a, N: -back, D: p.Intn(3)}
		if p.Chance(1, 8) {
			op.E = 1 + p.Intn(3)
		}
		return op
	}
	if p.Chance(1, 10) {
		op.E = 1 + p.Intn(10)
	}
	return op
}
