package sim

import (
	"encoding/json"
	"fmt"
	"math/big"
	"os"
	"strings"
	"time"

	sdkmath "cosmossdk.io/math"
	sdk "github.com/cosmos/cosmos-sdk/types"
	banktypes "github.com/cosmos/cosmos-sdk/x/bank/types"
	slashingtypes "github.com/cosmos/cosmos-sdk/x/slashing/types"
	"github.com/ethereum/go-ethereum/accounts/abi"
	"github.com/ethereum/go-ethereum/common"

	assetstypes "github.com/ExocoreNetwork/exocore/x/assets/types"
	delegationkeeper "github.com/ExocoreNetwork/exocore/x/delegation/keeper"
	delegationtypes "github.com/ExocoreNetwork/exocore/x/delegation/types"
	dogfoodtypes "github.com/ExocoreNetwork/exocore/x/dogfood/types"
	operatortypes "github.com/ExocoreNetwork/exocore/x/operator/types"
)

// Op is one client operation of a plan. All arguments are small integers / strings so that
// plans serialise to JSON and shrink well; amounts are state-relative (resolved when the
// transaction is built, immediately before delivery).
type Op struct {
	K   string `json:"k"`             // kind
	A   int    `json:"a,omitempty"`   // primary actor (staker ref / operator idx / account idx)
	B   int    `json:"b,omitempty"`   // asset idx / feeder
	C   int    `json:"c,omitempty"`   // operator idx
	D   int    `json:"d,omitempty"`   // key idx / aux
	E   int    `json:"e,omitempty"`   // aux
	Amt string `json:"amt,omitempty"` // "=N" absolute, "%N" per-mille of base, "all", "+N" base+N
	N   int64  `json:"n,omitempty"`   // nonce / numeric aux
	S   string `json:"s,omitempty"`   // string aux
	M   int    `json:"m,omitempty"`   // mode (signature mode, caller mode, ...)
	// second leg for multi-operator native messages
	C2   int    `json:"c2,omitempty"`
	Amt2 string `json:"amt2,omitempty"`
}

func (o Op) String() string { b, _ := json.Marshal(o); return string(b) }

var (
	AssetsPrecompile     = common.HexToAddress("0x0000000000000000000000000000000000000804")
	DelegationPrecompile = common.HexToAddress("0x0000000000000000000000000000000000000805")
	RewardPrecompile     = common.HexToAddress("0x0000000000000000000000000000000000000806")
	SlashPrecompile      = common.HexToAddress("0x0000000000000000000000000000000000000807")
	BLSPrecompile        = common.HexToAddress("0x0000000000000000000000000000000000000809")
	AVSPrecompile        = common.HexToAddress("0x0000000000000000000000000000000000000901")
)

var abis = map[string]abi.ABI{}

func RepoDir() string {
	if d := os.Getenv("EXOSIM_REPO"); d != "" {
		return d
	}
	return "/repo"
}

// ABI loads a precompile ABI from the repository tree.
func ABI(name string) abi.ABI {
	if a, ok := abis[name]; ok {
		return a
	}
	bz, err := os.ReadFile(RepoDir() + "/precompiles/" + name + "/abi.json")
	if err != nil {
		panic(err)
	}
	a, err := abi.JSON(strings.NewReader(string(bz)))
	if err != nil {
		panic(err)
	}
	abis[name] = a
	return a
}

func pad32(b []byte) []byte {
	out := make([]byte, 32)
	copy(out, b)
	return out
}

// ResolveAmt resolves an amount spec against a base.
func ResolveAmt(spec string, base *big.Int) *big.Int {
	if base == nil {
		base = new(big.Int)
	}
	switch {
	case spec == "" || spec == "all":
		return new(big.Int).Set(base)
	case strings.HasPrefix(spec, "="):
		v, ok := new(big.Int).SetString(spec[1:], 10)
		if !ok {
			return big.NewInt(1)
		}
		return v
	case strings.HasPrefix(spec, "%"):
		v, _ := new(big.Int).SetString(spec[1:], 10)
		if v == nil {
			v = big.NewInt(500)
		}
		r := new(big.Int).Mul(base, v)
		r.Quo(r, big.NewInt(1000))
		if r.Sign() == 0 && base.Sign() > 0 {
			r.SetInt64(1)
		}
		return r
	case strings.HasPrefix(spec, "+"):
		v, _ := new(big.Int).SetString(spec[1:], 10)
		if v == nil {
			v = big.NewInt(1)
		}
		return new(big.Int).Add(base, v)
	case strings.HasPrefix(spec, "2^"):
		v, _ := new(big.Int).SetString(spec[2:], 10)
		if v == nil {
			v = big.NewInt(255)
		}
		return new(big.Int).Lsh(big.NewInt(1), uint(v.Int64()))
	}
	return big.NewInt(1)
}

// ---------------------------------------------------------------------------
// actor references
// ---------------------------------------------------------------------------

// NStakerRefs: staker refs 0..NOps-1 are the operators' own client-chain identities,
// NOps.. are the extra stakers.
func (w *World) NStakerRefs() int { return len(w.Ops) + len(w.Stakers) }

func (w *World) StakerAddr(ref int) []byte {
	n := w.NStakerRefs()
	ref = ((ref % n) + n) % n
	if ref < len(w.Ops) {
		return w.Ops[ref].Eth.Bytes()
	}
	return w.Stakers[ref-len(w.Ops)]
}

func (w *World) StakerIDFor(ref int, lz uint64) string {
	id, _ := assetstypes.GetStakerIDAndAssetID(lz, w.StakerAddr(ref), nil)
	return id
}

func (w *World) Op(i int) *Operator {
	n := len(w.Ops)
	return w.Ops[((i%n)+n)%n]
}

func (w *World) AssetIdx(i int) int {
	n := len(w.Cfg.Assets)
	return ((i % n) + n) % n
}

func (w *World) Native(i int) Account {
	n := len(w.Natives)
	return w.Natives[((i%n)+n)%n]
}

// ---------------------------------------------------------------------------
// state reads used to resolve state-relative arguments
// ---------------------------------------------------------------------------

func (r *Run) withdrawable(ctx sdk.Context, stakerID, assetID string) *big.Int {
	info, err := r.Node.App.AssetsKeeper.GetStakerSpecifiedAssetInfo(ctx, stakerID, assetID)
	if err != nil || info == nil {
		return new(big.Int)
	}
	return info.WithdrawableAmount.BigInt()
}

// position returns the redeemable token amount of a staker's delegation to an operator.
func (r *Run) position(ctx sdk.Context, stakerID, assetID string, op sdk.AccAddress) (res *big.Int) {
	defer func() {
		// the repository's conversion helper panics ("Int overflow") for pool amounts near 2^255;
		// for argument resolution that simply means "no usable position"
		if rec := recover(); rec != nil {
			res = new(big.Int)
		}
	}()
	d, err := r.Node.App.DelegationKeeper.GetSingleDelegationInfo(ctx, stakerID, assetID, op.String())
	if err != nil || d == nil {
		return new(big.Int)
	}
	oi, err := r.Node.App.AssetsKeeper.GetOperatorSpecifiedAssetInfo(ctx, op, assetID)
	if err != nil || oi == nil {
		return new(big.Int)
	}
	t, err := delegationkeeper.TokensFromShares(d.UndelegatableShare, oi.TotalShare, oi.TotalAmount)
	if err != nil {
		return new(big.Int)
	}
	return t.BigInt()
}

// ---------------------------------------------------------------------------
// building transactions from ops
// ---------------------------------------------------------------------------

// BuiltTx is a transaction ready for delivery plus what the monitors need to know about it.
type BuiltTx struct {
	Op       Op
	Bytes    []byte
	Kind     string // "eth", "cosmos", "oracle", "raw"
	Sender   sdk.AccAddress
	EthHash  common.Hash
	Method   string // precompile method
	Amount   *big.Int
	StakerID string
	AssetID  string
	Operator sdk.AccAddress
	LzNonce  uint64
	Note     string
	Amount2  *big.Int
	Operator2 sdk.AccAddress
	GasLimit uint64
	GasPrice *big.Int
	Value    *big.Int
	To       *common.Address
	Oracle   *OracleInfo
	Authorized *bool // for parameter updates: whether the sender is the rightful authority
	EthNonce   uint64
	EthTip     *big.Int
	EthType    int
	Creates    *common.Address
	AVS        *AVSTx
	ViaForwarder bool           // sent to the gateway forwarder contract, which CALLs Precompile
	Reverting    bool           // the forwarder reverts after the inner call
	NEth         int            // number of Ethereum messages in an "ethbatch" transaction
	CallMode     string         // "static" / "delegate": the forwarder used STATICCALL / DELEGATECALL instead of CALL
	Precompile   common.Address
}

func sdkDur(sec int64) time.Duration { return time.Duration(sec) * time.Second }

const defaultEthGas = 3_000_000

func (r *Run) ethCall(ctx sdk.Context, from Account, to common.Address, data []byte, bt *BuiltTx) error {
	nonce := r.Node.App.EvmKeeper.GetNonce(ctx, from.Eth)
	base := r.Node.App.FeeMarketKeeper.GetBaseFee(ctx)
	if base == nil {
		base = big.NewInt(0)
	}
	feeCap := new(big.Int).Add(new(big.Int).Mul(base, big.NewInt(2)), big.NewInt(1_000_000_000))
	value := big.NewInt(0)
	if bt.Value != nil {
		value = bt.Value // preset by the caller (nested frames pass value on)
	}
	bz, h, err := EthTx(r.Node.App.EvmKeeper.ChainID(), from.Priv, EthTxArgs{
		Type: 2, Nonce: nonce, To: &to, Value: value, GasLimit: defaultEthGas,
		GasFeeCap: feeCap, GasTipCap: big.NewInt(1), Data: data,
	})
	if err != nil {
		return err
	}
	bt.Bytes, bt.EthHash, bt.Kind, bt.Sender = bz, h, "eth", from.Addr
	bt.GasLimit, bt.GasPrice, bt.To = defaultEthGas, feeCap, &to
	bt.EthType, bt.EthTip, bt.EthNonce, bt.Value = 2, big.NewInt(1), nonce, value
	return nil
}

func (r *Run) cosmosTx(ctx sdk.Context, from Account, bt *BuiltTx, msgs ...sdk.Msg) error {
	acc := r.Node.App.AccountKeeper.GetAccount(ctx, from.Addr)
	if acc == nil {
		return fmt.Errorf("no account %s", from.Addr)
	}
	gas := uint64(2_000_000)
	// fee: gas * (base fee or 1e9)
	price := sdkmath.NewInt(1_000_000_000)
	if b := r.Node.App.FeeMarketKeeper.GetBaseFee(ctx); b != nil && b.Sign() > 0 {
		price = sdkmath.NewIntFromBigInt(b).MulRaw(2)
	}
	mut := r.txMutate
	r.txMutate = nil
	bz, err := CosmosTxMut(r.W.Cfg.ChainID, from.Priv, acc.GetAccountNumber(), acc.GetSequence(), gas, price.MulRaw(int64(gas)), mut, msgs...)
	if err != nil {
		return err
	}
	bt.Bytes, bt.Kind, bt.Sender = bz, "cosmos", from.Addr
	return nil
}

// gatewayCall sends a gateway-only precompile call. With an EOA gateway (default) the configured
// gateway account (M=0) or another funded account (M=1) calls the precompile directly. With a
// CONTRACT gateway (cfg.GatewayContract) the configured gateway address is a forwarder contract:
// M=0 any account calls the forwarder, which CALLs the precompile (contract.CallerAddress = the
// gateway contract); M=2 the same but the forwarder REVERTs after the precompile call returned,
// so everything the precompile did must be rolled back with the frame; M=1 an account calls the
// precompile directly (not the gateway); M=3 the forwarder STATICCALLs the precompile (a write in a
// read-only frame: must fail without effect); M=4 the forwarder DELEGATECALLs it (the precompile
// then sees the forwarder's own caller, an ordinary account, as its caller: not the gateway);
// M=5 NESTED: an outer forwarder CALLs the gateway forwarder, whose frame reverts after the precompile
// returned; the outer frame swallows the failure and returns normally, so the transaction succeeds
// while everything done inside the reverted inner frame must be gone.
func (r *Run) gatewayCall(ctx sdk.Context, op Op, precompile common.Address, data []byte, bt *BuiltTx) error {
	if !r.W.Cfg.GatewayContract || op.M == 1 {
		return r.ethCall(ctx, r.callerFor(op), precompile, data, bt)
	}
	flag := byte(0)
	switch op.M {
	case 2:
		flag = 1
		bt.Reverting = true
	case 3:
		flag = 2
		bt.CallMode = "static"
	case 4:
		flag = 3
		bt.CallMode = "delegate"
	}
	if op.M == 5 {
		flag = 1
		bt.CallMode = "nested-revert"
	}
	wrapped := append(common.LeftPadBytes(precompile.Bytes(), 32), common.LeftPadBytes([]byte{flag}, 32)...)
	wrapped = append(wrapped, data...)
	bt.ViaForwarder = true
	bt.Precompile = precompile
	if op.M == 5 {
		// the outer frame passes the transaction's value on to the inner (gateway) frame, which
		// reverts: the value must come back to the outer contract and nothing may be created
		outer := append(common.LeftPadBytes(r.W.GatewayContract.Bytes(), 32), common.LeftPadBytes([]byte{5}, 32)...)
		outer = append(outer, wrapped...)
		bt.Value = big.NewInt(1_000_003)
		return r.ethCall(ctx, r.W.Users[0], r.W.OuterContract, outer, bt)
	}
	return r.ethCall(ctx, r.W.Users[0], r.W.GatewayContract, wrapped, bt)
}

// callerFor selects who sends a gateway-only precompile call: M==0 the configured gateway,
// M==1 an ordinary user (unauthorised).
func (r *Run) callerFor(op Op) Account {
	if op.M == 1 {
		return r.W.Users[0]
	}
	return r.W.Gateway
}

// Build turns an op into a transaction against the current deliver state.
func (r *Run) Build(ctx sdk.Context, op Op) (*BuiltTx, error) {
	w := r.W
	bt := &BuiltTx{Op: op}
	switch op.K {
	case "dep", "wd":
		ai := w.AssetIdx(op.B)
		a := w.Cfg.Assets[ai]
		staker := w.StakerAddr(op.A)
		bt.StakerID = w.StakerIDFor(op.A, a.LzID)
		bt.AssetID = w.AssetIDs[ai]
		var base *big.Int
		if op.K == "wd" {
			base = r.withdrawable(ctx, bt.StakerID, bt.AssetID)
		} else {
			base = new(big.Int).Mul(big.NewInt(100), pow10(a.Decimals).BigInt())
		}
		bt.Amount = ResolveAmt(op.Amt, base)
		var data []byte
		var err error
		ab := ABI("assets")
		if a.NST {
			bt.Method = map[string]string{"dep": "depositNST", "wd": "withdrawNST"}[op.K]
			pub := pad32([]byte{byte(op.D + 1)}) // validator pubkey stand-in (32 bytes)
			pub[31] = byte(op.D + 1)
			data, err = ab.Pack(bt.Method, uint32(a.LzID), pub, pad32(staker), bt.Amount)
		} else {
			bt.Method = map[string]string{"dep": "depositLST", "wd": "withdrawLST"}[op.K]
			data, err = ab.Pack(bt.Method, uint32(a.LzID), pad32(common.HexToAddress(a.Addr).Bytes()), pad32(staker), bt.Amount)
		}
		if err != nil {
			return nil, err
		}
		return bt, r.gatewayCall(ctx, op, AssetsPrecompile, data, bt)
	case "del", "und":
		ai := w.AssetIdx(op.B)
		a := w.Cfg.Assets[ai]
		staker := w.StakerAddr(op.A)
		o := w.Op(op.C)
		bt.StakerID = w.StakerIDFor(op.A, a.LzID)
		bt.AssetID = w.AssetIDs[ai]
		bt.Operator = o.Addr
		var base *big.Int
		if op.K == "del" {
			base = r.withdrawable(ctx, bt.StakerID, bt.AssetID)
			bt.Method = "delegate"
		} else {
			base = r.position(ctx, bt.StakerID, bt.AssetID, o.Addr)
			bt.Method = "undelegate"
		}
		bt.Amount = ResolveAmt(op.Amt, base)
		bt.LzNonce = uint64(op.N)
		data, err := ABI("delegation").Pack(bt.Method, uint32(a.LzID), uint64(op.N),
			pad32(common.HexToAddress(a.Addr).Bytes()), pad32(staker), []byte(o.Addr.String()), bt.Amount)
		if err != nil {
			return nil, err
		}
		return bt, r.gatewayCall(ctx, op, DelegationPrecompile, data, bt)
	case "assoc":
		lz := w.Cfg.Chains[((op.D%len(w.Cfg.Chains))+len(w.Cfg.Chains))%len(w.Cfg.Chains)]
		o := w.Op(op.C)
		bt.StakerID = w.StakerIDFor(op.A, lz)
		bt.Operator = o.Addr
		bt.Method = "associateOperatorWithStaker"
		data, err := ABI("delegation").Pack(bt.Method, uint32(lz), pad32(w.StakerAddr(op.A)), []byte(o.Addr.String()))
		if err != nil {
			return nil, err
		}
		return bt, r.gatewayCall(ctx, op, DelegationPrecompile, data, bt)
	case "dissoc":
		lz := w.Cfg.Chains[((op.D%len(w.Cfg.Chains))+len(w.Cfg.Chains))%len(w.Cfg.Chains)]
		bt.StakerID = w.StakerIDFor(op.A, lz)
		bt.Method = "dissociateOperatorFromStaker"
		data, err := ABI("delegation").Pack(bt.Method, uint32(lz), pad32(w.StakerAddr(op.A)))
		if err != nil {
			return nil, err
		}
		return bt, r.gatewayCall(ctx, op, DelegationPrecompile, data, bt)
	case "ndel", "nund":
		n := w.Native(op.A)
		o := w.Op(op.C)
		bt.StakerID, _ = assetstypes.GetStakerIDAndAssetID(assetstypes.ExocoreChainLzID, n.Addr.Bytes(), nil)
		bt.AssetID = assetstypes.ExocoreAssetID
		bt.Operator = o.Addr
		var base *big.Int
		if op.K == "ndel" {
			base = new(big.Int).Mul(big.NewInt(1000), pow10(18).BigInt())
		} else {
			base = r.position(ctx, bt.StakerID, bt.AssetID, o.Addr)
		}
		bt.Amount = ResolveAmt(op.Amt, base)
		kvs := []delegationtypes.KeyValue{{Key: o.Addr.String(), Value: &delegationtypes.ValueField{Amount: safeInt(bt.Amount)}}}
		if op.Amt2 != "" {
			o2 := w.Op(op.C2)
			var base2 *big.Int
			if op.K == "ndel" {
				base2 = base
			} else {
				base2 = r.position(ctx, bt.StakerID, bt.AssetID, o2.Addr)
			}
			bt.Amount2 = ResolveAmt(op.Amt2, base2)
			bt.Operator2 = o2.Addr
			kvs = append(kvs, delegationtypes.KeyValue{Key: o2.Addr.String(), Value: &delegationtypes.ValueField{Amount: safeInt(bt.Amount2)}})
		}
		info := &delegationtypes.DelegationIncOrDecInfo{FromAddress: n.Addr.String(), PerOperatorAmounts: kvs}
		var msg sdk.Msg
		if op.K == "ndel" {
			msg = &delegationtypes.MsgDelegation{AssetID: assetstypes.ExocoreAssetID, BaseInfo: info}
			bt.Method = "MsgDelegation"
		} else {
			msg = &delegationtypes.MsgUndelegation{AssetID: assetstypes.ExocoreAssetID, BaseInfo: info}
			bt.Method = "MsgUndelegation"
		}
		return bt, r.cosmosTx(ctx, n, bt, msg)
	case "optin":
		o := w.Op(op.A)
		key := o.ConsKeys[((op.D%ConsKeyPool)+ConsKeyPool)%ConsKeyPool]
		if op.E > 0 { // another operator's key
			key = w.Op(op.E - 1).ConsKeys[((op.D%ConsKeyPool)+ConsKeyPool)%ConsKeyPool]
		}
		bt.Operator = o.Addr
		bt.Method = "OptIntoAVS"
		msg := &operatortypes.OptIntoAVSReq{FromAddress: o.Addr.String(), AvsAddress: r.avsAddr(op.S), PublicKeyJSON: ConsPub(key).ToJSON()}
		if op.S != "" && op.S != "dogfood" {
			msg.PublicKeyJSON = ""
		}
		if op.S != "" && op.S != "dogfood" {
			bt.AVS = &AVSTx{Kind: "optin", AVS: msg.AvsAddress, Operator: o.Addr.String()}
		}
		return bt, r.cosmosTx(ctx, o.Account, bt, msg)
	case "optout":
		o := w.Op(op.A)
		bt.Operator = o.Addr
		bt.Method = "OptOutOfAVS"
		if op.S != "" && op.S != "dogfood" {
			bt.AVS = &AVSTx{Kind: "optout", AVS: r.avsAddr(op.S), Operator: o.Addr.String(), Out: true}
		}
		return bt, r.cosmosTx(ctx, o.Account, bt, &operatortypes.OptOutOfAVSReq{FromAddress: o.Addr.String(), AvsAddress: r.avsAddr(op.S)})
	case "setkey":
		o := w.Op(op.A)
		key := o.ConsKeys[((op.D%ConsKeyPool)+ConsKeyPool)%ConsKeyPool]
		if op.E > 0 {
			key = w.Op(op.E - 1).ConsKeys[((op.D%ConsKeyPool)+ConsKeyPool)%ConsKeyPool]
		}
		bt.Operator = o.Addr
		bt.Method = "SetConsKey"
		return bt, r.cosmosTx(ctx, o.Account, bt, &operatortypes.SetConsKeyReq{Address: o.Addr.String(), AvsAddress: r.avsAddr(op.S), PublicKeyJSON: ConsPub(key).ToJSON()})
	case "regop":
		o := w.Op(op.A)
		bt.Operator = o.Addr
		bt.Method = "RegisterOperator"
		return bt, r.cosmosTx(ctx, o.Account, bt, &operatortypes.RegisterOperatorReq{FromAddress: o.Addr.String(), Info: &operatortypes.OperatorInfo{
			EarningsAddr: o.Addr.String(), OperatorMetaInfo: o.Name,
		}})
	case "dfparams":
		u := w.Users[((op.A%len(w.Users))+len(w.Users))%len(w.Users)]
		auth := u.Addr.String()
		bt.Method = "dogfood.MsgUpdateParams"
		msg := &dogfoodtypes.MsgUpdateParams{Authority: auth, Params: dogfoodtypes.Params{EpochsUntilUnbonded: uint32(op.N), MaxValidators: uint32(op.D)}}
		return bt, r.cosmosTx(ctx, u, bt, msg)
	case "unjail":
		o := w.Op(op.A)
		bt.Operator = o.Addr
		bt.Method = "MsgUnjail"
		return bt, r.cosmosTx(ctx, o.Account, bt, slashingtypes.NewMsgUnjail(sdk.ValAddress(o.Addr)))
	case "send":
		u := w.Users[((op.A%len(w.Users))+len(w.Users))%len(w.Users)]
		v := w.Users[((op.C%len(w.Users))+len(w.Users))%len(w.Users)]
		bt.Amount = ResolveAmt(op.Amt, big.NewInt(1_000_000))
		bt.Method = "MsgSend"
		return bt, r.cosmosTx(ctx, u, bt, banktypes.NewMsgSend(u.Addr, v.Addr, sdk.NewCoins(sdk.NewCoin("hua", safeInt(bt.Amount)))))
	case "replay":
		// re-submit the bytes of an earlier transaction of this run
		if len(r.History) == 0 {
			return nil, fmt.Errorf("nothing to replay")
		}
		i := ((int(op.N) % len(r.History)) + len(r.History)) % len(r.History)
		prev := r.History[i]
		cp := *prev
		cp.Op = op
		cp.Note = "replay"
		return &cp, nil
	}
	if f, ok := extraBuilders[op.K]; ok {
		return f(r, ctx, op)
	}
	return nil, fmt.Errorf("unknown op kind %q", op.K)
}

// directOps are keeper entry points the statements name explicitly (slash, NST update): they are
// called on the block's deliver context between transactions, as BeginBlock/EndBlock callers do.
var directOps = map[string]func(r *Run, ctx sdk.Context, op Op){}

// extraBuilders lets other files register op kinds (oracle, avs, evm, params).
var extraBuilders = map[string]func(r *Run, ctx sdk.Context, op Op) (*BuiltTx, error){}

func (r *Run) avsAddr(s string) string {
	if s == "" || s == "dogfood" {
		return r.W.DogfoodAVS
	}
	if a, ok := r.W.avsRef(s); ok {
		return a
	}
	return s
}

// safeInt converts to sdk Int, clamping to the representable range (2^255).
func safeInt(b *big.Int) sdkmath.Int {
	max := new(big.Int).Lsh(big.NewInt(1), 255)
	if b.Cmp(max) > 0 {
		b = max
	}
	return sdkmath.NewIntFromBigInt(b)
}
