package sim

import (
	"encoding/hex"
	"math/big"

	sdk "github.com/cosmos/cosmos-sdk/types"
	"github.com/ethereum/go-ethereum/common"
	"github.com/ethereum/go-ethereum/crypto"
)

// hand-assembled contracts
var (
	// runtime: SSTORE(0, 0x2a); STOP
	rtWriter = mustHex("602a60005500")
	// runtime: SSTORE(0, 0x2a); REVERT(0,0)
	rtReverter = mustHex("602a60005560006000fd")
	// runtime: JUMPDEST; PUSH1 0; JUMP  (burns all gas)
	rtBurner = mustHex("5b600056")
	// runtime: forwarder. calldata = [target (32 bytes)][mode (32 bytes)][payload]: mode 0 CALLs target
	// with the payload (value 0) and returns the call's return data; 1 CALLs and then REVERTs;
	// 2 STATICCALLs; 3 DELEGATECALLs; 5 CALLs passing on the value it received (2, 3 and 5 return the
	// return data). A failed inner call is swallowed: the forwarder returns normally with the (empty)
	// return data. Assembled by hand (see DESIGN.md §13).
	rtForwarder = mustHex("604036038060406000376020358060021460335780600314605457806005146043576000600083600060006000355af16061565b600060008360006000355afa6061565b60006000836000346000355af16061565b600060008360006000355af45b506001146073573d600060003e3d6000f35b60006000fd")
)

func init() {
	// ebatch: ONE cosmos transaction carrying TWO signed dynamic-fee Ethereum transactions of user A
	// with consecutive nonces n, n+1. E: 0 [contract creation, transfer to user C], 1 [transfer,
	// transfer], 2 [transfer, contract creation]. Both are included, so the nonce must end at n+2.
	extraBuilders["ebatch"] = func(r *Run, ctx sdk.Context, op Op) (*BuiltTx, error) {
		w := r.W
		u := w.Users[((op.A%len(w.Users))+len(w.Users))%len(w.Users)]
		v := w.Users[((op.C%len(w.Users))+len(w.Users))%len(w.Users)]
		app := r.Node.App
		nonce := app.EvmKeeper.GetNonce(ctx, u.Eth)
		base := app.FeeMarketKeeper.GetBaseFee(ctx)
		if base == nil {
			base = new(big.Int)
		}
		price := new(big.Int).Add(new(big.Int).Mul(base, big.NewInt(2)), big.NewInt(1_000_000_000))
		tip := big.NewInt(1_000_000)
		to := v.Eth
		create := EthTxArgs{Type: 2, To: nil, Value: big.NewInt(0), GasLimit: 300_000, GasFeeCap: price, GasTipCap: tip, Data: initCode(rtWriter)}
		xfer := EthTxArgs{Type: 2, To: &to, Value: big.NewInt(1_000_000_000_000), GasLimit: 100_000, GasFeeCap: price, GasTipCap: tip}
		var list []EthTxArgs
		switch ((op.E % 3) + 3) % 3 {
		case 0:
			list = []EthTxArgs{create, xfer}
		case 1:
			list = []EthTxArgs{xfer, xfer}
		default:
			list = []EthTxArgs{xfer, create}
		}
		for i := range list {
			list[i].Nonce = nonce + uint64(i)
		}
		bz, err := EthBatchTx(app.EvmKeeper.ChainID(), u.Priv, list)
		if err != nil {
			return nil, err
		}
		bt := &BuiltTx{Op: op, Method: "", Bytes: bz, Kind: "ethbatch", Sender: u.Addr, EthNonce: nonce, NEth: len(list)}
		return bt, nil
	}
}

func mustHex(s string) []byte {
	b, err := hex.DecodeString(s)
	if err != nil {
		panic(err)
	}
	return b
}

// initCode wraps runtime code into creation code that returns it.
func initCode(rt []byte) []byte {
	// PUSH1 len; DUP1; PUSH1 0x0b; PUSH1 0; CODECOPY; PUSH1 0; RETURN
	pre := []byte{0x60, byte(len(rt)), 0x80, 0x60, 0x0b, 0x60, 0x00, 0x39, 0x60, 0x00, 0xf3}
	return append(pre, rt...)
}

func init() {
	// etx: plain Ethereum transaction.
	// A sender (user idx); C recipient user idx; M tx type 0/1/2; Amt value; N gas limit (0 = 100000);
	// S price spec: "" ok, "low" below base fee / min gas price, "zero", "high";
	// D nonce offset (0 correct, 1 gap, -1 replayed nonce);
	// E payload: 0 transfer, 1 deploy writer, 2 deploy reverter, 3 deploy burner, 4 deploy forwarder,
	//            5 call last deployed contract, 6 call with garbage data, 7 transfer more than the balance,
	//            8 call a stateful precompile (B) with 0..3 bytes of calldata (C), 9 value within the
	//            balance but value + gas limit x price above it
	extraBuilders["etx"] = func(r *Run, ctx sdk.Context, op Op) (*BuiltTx, error) {
		w := r.W
		u := w.Users[((op.A%len(w.Users))+len(w.Users))%len(w.Users)]
		v := w.Users[((op.C%len(w.Users))+len(w.Users))%len(w.Users)]
		app := r.Node.App
		nonce := uint64(int64(app.EvmKeeper.GetNonce(ctx, u.Eth)) + int64(op.D))
		base := app.FeeMarketKeeper.GetBaseFee(ctx)
		if base == nil {
			base = new(big.Int)
		}
		price := new(big.Int).Add(new(big.Int).Mul(base, big.NewInt(2)), big.NewInt(1_000_000_000))
		tip := big.NewInt(1_000_000)
		switch op.S {
		case "low":
			price = new(big.Int).Quo(base, big.NewInt(2))
			tip = big.NewInt(0)
		case "zero":
			price, tip = big.NewInt(0), big.NewInt(0)
		case "high":
			price = new(big.Int).Mul(price, big.NewInt(1000))
			tip = new(big.Int).Set(price)
		case "tipabovecap":
			tip = new(big.Int).Add(price, big.NewInt(5))
		}
		gas := uint64(op.N)
		if gas == 0 {
			gas = 100_000
		}
		value := ResolveAmt(op.Amt, big.NewInt(1_000_000_000_000))
		var to *common.Address
		var data []byte
		tv := v.Eth
		to = &tv
		switch op.E {
		case 1:
			to, data = nil, initCode(rtWriter)
		case 2:
			to, data = nil, initCode(rtReverter)
		case 3:
			to, data = nil, initCode(rtBurner)
		case 4:
			to, data = nil, initCode(rtForwarder)
		case 5:
			if len(r.Contracts) > 0 {
				c := r.Contracts[((int(op.B)%len(r.Contracts))+len(r.Contracts))%len(r.Contracts)]
				to = &c
			}
		case 6:
			data = []byte{0xde, 0xad, 0xbe, 0xef, 0x01}
		case 7:
			bal := app.BankKeeper.GetBalance(ctx, u.Addr, "hua").Amount.BigInt()
			value = new(big.Int).Add(bal, big.NewInt(1))
		case 8:
			// a stateful precompile called with fewer than the four bytes of a method selector
			pc := []string{"0x0000000000000000000000000000000000000804", "0x0000000000000000000000000000000000000805", "0x0000000000000000000000000000000000000806", "0x0000000000000000000000000000000000000809", "0x0000000000000000000000000000000000000901"}[((op.B%5)+5)%5]
			a := common.HexToAddress(pc)
			to = &a
			data = []byte{0xde, 0xad, 0xbe}[:((op.C%4)+4)%4]
		case 9:
			// the balance covers the value but not value + gas limit x price
			bal := app.BankKeeper.GetBalance(ctx, u.Addr, "hua").Amount.BigInt()
			fee := new(big.Int).Mul(price, new(big.Int).SetUint64(gas))
			value = new(big.Int).Sub(bal, new(big.Int).Quo(fee, big.NewInt(2)))
			if value.Sign() < 0 {
				value = big.NewInt(0)
			}
		}
		if to == nil && op.E != 7 && op.Amt == "" {
			value = big.NewInt(0)
		}
		bt := &BuiltTx{Op: op, Method: "", Amount: value}
		bz, h, err := EthTx(app.EvmKeeper.ChainID(), u.Priv, EthTxArgs{Type: op.M % 3, Nonce: nonce, To: to, Value: value, GasLimit: gas,
			GasPrice: price, GasFeeCap: price, GasTipCap: tip, Data: data})
		if err != nil {
			return nil, err
		}
		bt.Bytes, bt.EthHash, bt.Kind, bt.Sender = bz, h, "eth", u.Addr
		bt.GasLimit, bt.GasPrice, bt.Value, bt.To = gas, price, value, to
		bt.EthNonce = nonce
		bt.EthTip = tip
		bt.EthType = op.M % 3
		if to == nil {
			ca := crypto.CreateAddress(u.Eth, nonce)
			bt.Creates = &ca
		}
		return bt, nil
	}
}
