package sim

var valsetWeights = map[string]int{"dep": 8, "wd": 2, "del": 10, "und": 8, "assoc": 2, "dissoc": 1, "ndel": 2, "nund": 2, "optin": 7, "optout": 5, "setkey": 8, "unjail": 3, "send": 1}

func valsetConfig(p *PRNG, tier string) Config {
	c := SwarmConfig(p, SwarmOpts{MinOps: 3, MaxOps: 6, EpochSecs: []int64{15, 20, 30}})
	c.HugeAmounts = false
	// more eligible operators than the maximum, ties and sub-unit powers
	c.MaxVals = uint32(p.Range(1, 4))
	if int(c.MaxVals) < c.NVals {
		c.NVals = int(c.MaxVals)
	}
	if p.Chance(1, 2) {
		for i := range c.GenPowers {
			c.GenPowers[i] = 100 // ties
		}
	}
	return c
}

func init() {
	Register(&PropSpec{
		ID: "C06", Level: "exploration",
		Rule: "case = 3-6 operators, max validators 1-4 (often fewer than eligible operators), equal genesis powers in half the runs, plans rich in opt-in/out, key replacement (also twice per epoch, other operators' keys), delegation changes, downtime jailing, unjail, evidence and epoch jumps over many 15-30 s epochs; every EndBlock's update list is applied by the real CometBFT ValidatorSet and, in epoch-closing blocks, the resulting set is compared with the model's top-max eligible set (key, opted in, not jailed, floor(active USD) >= 1, ties by operator address) computed from public getters; stored set, stored total power and engine set compared after every block; non-trivial = >= 3 epoch-closing blocks, >= 2 with a non-empty update list, and a tie or more-eligible-than-max situation occurred",
		Assumptions: ledgerAssumptions,
		QuickRuns:   700, ThoroughRuns: 12000,
		GenConfig: valsetConfig,
		GenPlan:   ledgerPlan(LedgerGenOpts{DowntimeBursts: true, Evidence: true, EpochJumps: true, Restarts: true, W: valsetWeights}),
		Monitors:  func() []Monitor { return []Monitor{&c06Monitor{}} },
		NonTrivial: func(r *Run) bool {
			m := r.Mons[0].(*c06Monitor)
			return m.EpochEnds >= 3 && m.Changes >= 2 && (m.Ties > 0 || m.OverMax > 0)
		},
	})
	Register(&PropSpec{
		ID: "C07", Level: "exploration",
		Rule: "same generator as C06 (opt-in with key, key replacement any number of times per epoch incl. back to earlier keys and to other operators' keys, opt-out, opt-in again, jail/unjail, evidence to current/replaced/removed keys, epoch ends); after every step the five key indexes are read through public getters and checked for injectivity and agreement against a registry model; every consensus address that was in the engine's validator set must resolve to its operator until the end of (replacement/removal epoch + unbonding epochs) and be pruned in the block closing that epoch; non-trivial = >= 1 key replaced while active AND >= 1 matured key pruned",
		Assumptions: ledgerAssumptions,
		QuickRuns:   700, ThoroughRuns: 12000,
		GenConfig: valsetConfig,
		GenPlan:   ledgerPlan(LedgerGenOpts{DowntimeBursts: true, Evidence: true, EpochJumps: true, Restarts: true, W: valsetWeights}),
		Monitors:  func() []Monitor { return []Monitor{&c07Monitor{}} },
		NonTrivial: func(r *Run) bool {
			m := r.Mons[0].(*c07Monitor)
			return m.Replaced > 0 && m.Pruned > 0
		},
	})
}
