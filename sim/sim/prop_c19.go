package sim

import (
	"strings"
	"fmt"
	"math/big"

	sdkmath "cosmossdk.io/math"
	sdk "github.com/cosmos/cosmos-sdk/types"
	authtypes "github.com/cosmos/cosmos-sdk/x/auth/types"
	"github.com/ethereum/go-ethereum/common"
)

// C19 — Ethereum transactions: fee, nonce and revert accounting.
type c19Pre struct {
	nonce    uint64
	balS     *big.Int
	balR     *big.Int
	balFee   *big.Int
	dump     StoreDump
	recip    sdk.AccAddress
	minMult  sdkmath.LegacyDec
	baseFee  *big.Int
	supply   *big.Int
	affordable bool // balance >= value + gas limit x offered price (the admission rule for the balance)
}

type c19Monitor struct {
	BaseMonitor
	pre      *c19Pre
	batchNonce *uint64
	Executed int
	Failed   int
	Rejected int
	Creates  int
	Types    map[int]int
}

func (m *c19Monitor) Name() string { return "evm-accounting" }

func (m *c19Monitor) bal(r *Run, ctx sdk.Context, a sdk.AccAddress) *big.Int {
	return r.Node.App.BankKeeper.GetBalance(ctx, a, "hua").Amount.BigInt()
}

func (m *c19Monitor) BeforeTx(r *Run, ctx sdk.Context, tx *BuiltTx) {
	m.pre = nil
	m.batchNonce = nil
	if tx.Kind == "ethbatch" {
		n := r.Node.App.EvmKeeper.GetNonce(ctx, common.BytesToAddress(tx.Sender))
		m.batchNonce = &n
		return
	}
	if tx.Kind != "eth" || tx.Note == "replay" {
		return
	}
	p := &c19Pre{}
	p.nonce = r.Node.App.EvmKeeper.GetNonce(ctx, common.BytesToAddress(tx.Sender))
	p.balS = m.bal(r, ctx, tx.Sender)
	if tx.To != nil {
		p.recip = sdk.AccAddress(tx.To.Bytes())
	} else if tx.Creates != nil {
		p.recip = sdk.AccAddress(tx.Creates.Bytes())
	}
	if p.recip != nil {
		p.balR = m.bal(r, ctx, p.recip)
	}
	p.balFee = m.bal(r, ctx, authtypes.NewModuleAddress(authtypes.FeeCollectorName))
	p.dump = r.DumpStores(ctx, append([]string{"evm"}, RestakingStores...))
	p.minMult = r.Node.App.FeeMarketKeeper.GetParams(ctx).MinGasMultiplier
	p.baseFee = r.Node.App.FeeMarketKeeper.GetBaseFee(ctx)
	p.supply = r.Node.App.BankKeeper.GetSupply(ctx, "hua").Amount.BigInt()
	p.affordable = true
	if tx.GasPrice != nil && tx.Value != nil {
		cost := new(big.Int).Mul(tx.GasPrice, new(big.Int).SetUint64(tx.GasLimit))
		cost.Add(cost, tx.Value)
		p.affordable = p.balS.Cmp(cost) >= 0
	}
	m.pre = p
	if m.Types == nil {
		m.Types = map[int]int{}
	}
}

func (m *c19Monitor) AfterTx(r *Run, ctx sdk.Context, tx *TxResult) {
	if tx.Kind == "ethbatch" && m.batchNonce != nil {
		// every Ethereum transaction included in a block consumes exactly one nonce: a batch of k
		// included transactions moves the sender's nonce by k (or by 0 if the batch was rejected)
		got := r.Node.App.EvmKeeper.GetNonce(ctx, common.BytesToAddress(tx.Sender))
		want := *m.batchNonce + uint64(tx.NEth)
		if tx.Resp.Code == 0 {
			r.Probe("c19_batch_included")
		} else if got == *m.batchNonce {
			want = got // rejected at admission: nothing consumed (a batch that was admitted and then failed consumes its nonces)
		}
		if got != want {
			r.violateKeepGoing(m.Name(), "sender-nonce-increases-by-exactly-one", fmt.Sprintf("batch-of-%d:code=%d", tx.NEth, tx.Resp.Code), fmt.Sprintf("%s: a batch of %d Ethereum transactions (nonces %d..) ended with code %d and sender nonce %d, expected %d", tx.Op, tx.NEth, *m.batchNonce, tx.Resp.Code, got, want))
		}
		return
	}
	p := m.pre
	if p == nil {
		return
	}
	sender := common.BytesToAddress(tx.Sender)
	nonce := r.Node.App.EvmKeeper.GetNonce(ctx, sender)
	balS := m.bal(r, ctx, tx.Sender)
	balFee := m.bal(r, ctx, authtypes.NewModuleAddress(authtypes.FeeCollectorName))
	dS := new(big.Int).Sub(balS, p.balS)
	dFee := new(big.Int).Sub(balFee, p.balFee)
	desc := fmt.Sprintf("%s (type %d nonce %d limit %d cap %v tip %v value %v)", tx.Op, tx.EthType, tx.EthNonce, tx.GasLimit, tx.GasPrice, tx.EthTip, tx.Value)
	if !p.affordable && (nonce != p.nonce || dS.Sign() != 0 || dFee.Sign() != 0) {
		// the sender's balance does not cover value + gas limit x price: the transaction fails the
		// balance admission check, so it must not be included, and if a proposer includes it anyway
		// it must cost nothing
		if r.violateKeepGoing(m.Name(), "tx-failing-admission-costs-nothing", "balance-below-value-plus-max-fee", fmt.Sprintf("%s: sender balance %s is below value + gas limit x price, yet nonce %d->%d, sender balance delta %s, fee collector delta %s (code %d %s)", desc, p.balS, p.nonce, nonce, dS, dFee, tx.Resp.Code, firstN(tx.Resp.Log, 100))) {
			return
		}
	}
	if tx.EthResp == nil && nonce == p.nonce+1 && tx.Resp.Code != 0 {
		// admitted (the ante handler charged the fee and bumped the nonce) but the message failed
		// before the EVM ran (intrinsic gas above the limit, block gas exhausted): an included,
		// failed transaction whose gas used is what the ABCI result reports
		m.Executed++
		m.Failed++
		r.State("failed-before-evm:" + errClass(tx))
		used := uint64(tx.Resp.GasUsed)
		if used > tx.GasLimit {
			r.Violate(m.Name(), "gas-used-between-min-multiplier-limit-and-limit", "range", fmt.Sprintf("%s: gas used %d above limit %d", desc, used, tx.GasLimit))
			return
		}
		if new(big.Int).Neg(dS).Cmp(dFee) != 0 || dFee.Sign() < 0 {
			r.Violate(m.Name(), "sender-pays-value-plus-gas-used-times-price", "failed-before-evm", fmt.Sprintf("%s failed before execution (%s): sender delta %s, fee collector delta %s", desc, firstN(tx.Resp.Log, 100), dS, dFee))
			return
		}
		if used > 0 && strings.Contains(tx.Resp.Log, "block gas meter") {
			// executed, then discarded because the BLOCK gas meter ran out: the ante handler's
			// purchase of the whole gas limit stays, the refund of the unused gas is discarded
			// with the message's state
			if _, rem := new(big.Int).QuoRem(dFee, new(big.Int).SetUint64(used), new(big.Int)); rem.Sign() != 0 {
				if r.Violate(m.Name(), "unused-gas-refunded-when-block-gas-meter-runs-out", "pays-gas-limit", fmt.Sprintf("%s: the block gas meter ran out after the execution (reported gas used %d); the sender paid %s = gas limit x price, nothing was refunded", desc, used, dFee)) {
					return
				}
			}
			return
		}
		if used > 0 {
			if _, rem := new(big.Int).QuoRem(dFee, new(big.Int).SetUint64(used), new(big.Int)); rem.Sign() != 0 {
				r.Violate(m.Name(), "fee-collector-receives-gas-used-times-price", "not-a-multiple", fmt.Sprintf("%s: fee collector delta %s is not gas used %d times a price", desc, dFee, used))
				return
			}
		} else if dFee.Sign() != 0 {
			// included, nonce consumed, a fee charged - but the transaction reports that it used no gas
			r.violateKeepGoing(m.Name(), "fee-collector-receives-gas-used-times-price", "charged-with-zero-gas-used:"+errClass(tx), fmt.Sprintf("%s failed before execution (%s): reported gas used 0, yet the sender paid %s", desc, firstN(tx.Resp.Log, 160), dFee))
			return
		}
		post := r.DumpStores(ctx, append([]string{"evm"}, RestakingStores...))
		if diff := p.dump.Diff(post, nil); len(diff) > 0 {
			r.Violate(m.Name(), "failed-execution-changes-no-other-state", PrefixClass(diff), fmt.Sprintf("%s failed before execution but changed contract/restaking state:\n%s", desc, fmtDiff(diff, 6)))
		}
		return
	}
	if tx.EthResp == nil {
		// not executed: failed the admission checks; it must cost nothing and change nothing
		m.Rejected++
		r.State("rejected:" + errClass(tx))
		if nonce != p.nonce || dS.Sign() != 0 || dFee.Sign() != 0 {
			r.Violate(m.Name(), "tx-failing-admission-costs-nothing", errClass(tx), fmt.Sprintf("%s failed admission (code %d %s) but nonce %d->%d, sender balance delta %s, fee collector delta %s", desc, tx.Resp.Code, firstN(tx.Resp.Log, 120), p.nonce, nonce, dS, dFee))
			return
		}
		post := r.DumpStores(ctx, append([]string{"evm"}, RestakingStores...))
		if diff := p.dump.Diff(post, nil); len(diff) > 0 {
			r.Violate(m.Name(), "tx-failing-admission-costs-nothing", "state:"+PrefixClass(diff), fmt.Sprintf("%s failed admission but changed state:\n%s", desc, fmtDiff(diff, 6)))
		}
		return
	}
	m.Executed++
	m.Types[tx.EthType]++
	failed := tx.EthResp.VmError != ""
	if nonce != p.nonce+1 {
		r.Violate(m.Name(), "sender-nonce-increases-by-exactly-one", "nonce", fmt.Sprintf("%s executed (vm error %q): nonce %d -> %d", desc, tx.EthResp.VmError, p.nonce, nonce))
		return
	}
	used := tx.EthResp.GasUsed
	// gas used between min-multiplier x limit and limit
	minUsed := p.minMult.MulInt64(int64(tx.GasLimit)).TruncateInt().Uint64()
	if used > tx.GasLimit || used < minUsed {
		r.Violate(m.Name(), "gas-used-between-min-multiplier-limit-and-limit", "range", fmt.Sprintf("%s: gas used %d, limit %d, min multiplier %s (min %d)", desc, used, tx.GasLimit, p.minMult, minUsed))
		return
	}
	if uint64(tx.Resp.GasUsed) != used {
		r.Probe("c19_abci_gas_used_differs_from_eth_gas_used")
	}
	// fee collector receives gasUsed x effective price
	if used == 0 {
		return
	}
	price, rem := new(big.Int).QuoRem(dFee, new(big.Int).SetUint64(used), new(big.Int))
	if dFee.Sign() < 0 || rem.Sign() != 0 {
		r.Violate(m.Name(), "fee-collector-receives-gas-used-times-price", "not-a-multiple", fmt.Sprintf("%s: fee collector delta %s is not gas used %d times a price", desc, dFee, used))
		return
	}
	// effective price bounds
	maxPrice := tx.GasPrice
	if price.Cmp(maxPrice) > 0 {
		r.Violate(m.Name(), "effective-price-within-offer", "above-cap", fmt.Sprintf("%s: effective price %s above the offered %s", desc, price, maxPrice))
		return
	}
	if tx.EthType != 2 && price.Cmp(tx.GasPrice) != 0 {
		r.Violate(m.Name(), "effective-price-within-offer", "legacy-price", fmt.Sprintf("%s: legacy/access-list tx charged %s per gas, offered %s", desc, price, tx.GasPrice))
		return
	}
	if tx.EthType == 2 && p.baseFee != nil && p.baseFee.Sign() > 0 {
		want := new(big.Int).Add(p.baseFee, tx.EthTip)
		if want.Cmp(tx.GasPrice) > 0 {
			want = tx.GasPrice
		}
		if price.Cmp(want) != 0 {
			r.Violate(m.Name(), "effective-price-within-offer", "dynamic-fee-price", fmt.Sprintf("%s: charged %s per gas, min(cap, base fee %s + tip %s) = %s", desc, price, p.baseFee, tx.EthTip, want))
			return
		}
	}
	// sender pays value + gasUsed x price (value only if the execution did not fail)
	value := new(big.Int)
	if !failed && tx.Value != nil {
		value.Set(tx.Value)
	}
	selfTransfer := p.recip != nil && p.recip.Equals(tx.Sender)
	wantS := new(big.Int).Neg(dFee)
	if !selfTransfer {
		wantS.Sub(wantS, value)
	}
	if dS.Cmp(wantS) != 0 {
		r.Violate(m.Name(), "sender-pays-value-plus-gas-used-times-price", fmt.Sprintf("failed=%v", failed), fmt.Sprintf("%s (vm error %q): sender balance delta %s, expected %s (value %s, fee %s)", desc, tx.EthResp.VmError, dS, wantS, value, dFee))
		return
	}
	if p.recip != nil && !selfTransfer {
		dR := new(big.Int).Sub(m.bal(r, ctx, p.recip), p.balR)
		if dR.Cmp(value) != 0 {
			r.Violate(m.Name(), "recipient-receives-value-only-on-success", fmt.Sprintf("failed=%v", failed), fmt.Sprintf("%s (vm error %q): recipient delta %s, expected %s", desc, tx.EthResp.VmError, dR, value))
			return
		}
	}
	if tx.Creates != nil {
		m.Creates++
	}
	// an Ethereum transaction moves coins (value, fee, refund); it never creates or destroys any
	if sup := r.Node.App.BankKeeper.GetSupply(ctx, "hua").Amount.BigInt(); sup.Cmp(p.supply) != 0 {
		if r.violateKeepGoing(m.Name(), "no-coins-are-created-or-destroyed", "supply:"+tx.CallMode, fmt.Sprintf("%s (vm error %q): total supply %s -> %s (delta %s)", desc, tx.EthResp.VmError, p.supply, sup, new(big.Int).Sub(sup, p.supply))) {
			return
		}
	}
	if tx.CallMode == "nested-revert" {
		// the transaction succeeded, but the inner frame that reached the precompile reverted:
		// no restaking state may have been reached through it
		m.Failed++
		post := r.DumpStores(ctx, RestakingStores)
		if diff := p.dump.Diff(post, func(store string, key []byte) bool { return store == "evm" }); len(diff) > 0 {
			r.violateKeepGoing(m.Name(), "a-reverted-inner-frame-changes-no-restaking-state", "stores", fmt.Sprintf("%s: the inner frame reverted after the precompile returned, the outer frame returned normally; restaking state changed:\n%s", desc, fmtDiff(diff, 6)))
		}
		return
	}
	if failed {
		m.Failed++
		r.State("vmerror:" + normDigits(firstN(tx.EthResp.VmError, 30)))
		post := r.DumpStores(ctx, append([]string{"evm"}, RestakingStores...))
		if diff := p.dump.Diff(post, nil); len(diff) > 0 {
			r.Violate(m.Name(), "failed-execution-changes-no-other-state", PrefixClass(diff), fmt.Sprintf("%s failed (%s) but changed contract/restaking state:\n%s", desc, tx.EthResp.VmError, fmtDiff(diff, 6)))
		}
	}
}

func c19Plan(p *PRNG, cfg Config, tier string) Plan {
	o := LedgerGenOpts{EpochJumps: p.Chance(1, 3), Unauthorized: true,
		W: map[string]int{"dep": 6, "wd": 3, "del": 5, "und": 4, "assoc": 1, "dissoc": 1, "ndel": 1, "nund": 1, "optin": 1, "optout": 1, "setkey": 1, "send": 2}}
	o.MinBlocks, o.MaxBlocks = 20, 50
	if tier == "thorough" {
		o.MinBlocks, o.MaxBlocks = 30, 100
	}
	plan := GenLedgerPlan(p, cfg, o)
	prices := []string{"", "", "", "low", "zero", "high", "tipabovecap"}
	gases := []int64{0, 21000, 20999, 30000, 53000, 60000, 200000, 3000000, 40000000}
	for bi := range plan.Blocks {
		n := p.Intn(5)
		for k := 0; k < n; k++ {
			op := Op{K: "etx", A: p.Intn(3), C: p.Intn(3), M: p.Intn(3), Amt: []string{"=0", "=1", "=1000000000000", "%500"}[p.Intn(4)], N: gases[p.Intn(len(gases))], S: prices[p.Intn(len(prices))]}
			switch p.Intn(10) {
			case 0:
				op.D = 1
			case 1:
				op.D = -1
			}
			op.E = []int{0, 0, 0, 1, 2, 3, 4, 5, 5, 6, 7, 8, 8, 9}[p.Intn(14)]
			if p.Chance(1, 12) {
				op = Op{K: "ebatch", A: op.A, C: op.C, E: p.Intn(3)}
			}
			op.B = p.Intn(4)
			if op.E >= 1 && op.E <= 4 && op.N < 100000 && p.Chance(2, 3) {
				op.N = 300000
			}
			plan.Blocks[bi].Ops = append(plan.Blocks[bi].Ops, op)
		}
		if p.Chance(1, 8) && len(plan.Blocks[bi].Ops) > 0 {
			plan.Blocks[bi].Ops = append(plan.Blocks[bi].Ops, Op{K: "replay", N: int64(p.Intn(1 << 20))})
		}
	}
	if cfg.GatewayContract {
		// the gateway is a forwarder contract (deployed by user 2 with its first transaction); a
		// quarter of its calls go through a frame that REVERTS after the precompile returned: the
		// restaking state reached through the precompile must be rolled back with the frame
		for i := range plan.Blocks {
			for j := range plan.Blocks[i].Ops {
				o := &plan.Blocks[i].Ops[j]
				switch o.K {
				case "dep", "wd", "del", "und", "assoc", "dissoc":
					if o.M == 0 && p.Chance(1, 4) {
						o.M = 2
					} else if o.M == 0 && p.Chance(1, 8) {
						o.M = 3 + p.Intn(3) // STATICCALL / DELEGATECALL frame / nested reverting frame
					}
				}
			}
		}
		plan.Blocks[0].Ops = append([]Op{{K: "etx", A: 2, E: 4, N: 400000}, {K: "etx", A: 1, E: 4, N: 400000}}, plan.Blocks[0].Ops...)
	}
	return plan
}

func init() {
	Register(&PropSpec{
		ID: "C19", Level: "exploration",
		Rule: "Ethereum transactions of all three types (legacy, access-list, dynamic-fee) from three senders, several per block and per sender: plain transfers (value 0, 1, 1e12, half the balance, balance+1), contract creations (storage writer, store-then-revert, gas burner, forwarder), calls of deployed contracts, garbage calldata, fewer than four bytes of calldata to the stateful precompiles, a value the balance covers without the maximum fee, batches of two Ethereum messages in one cosmos transaction (create+transfer, transfer+transfer, transfer+create), gas limits 20999..40M, prices below the base fee / zero / normal / x1000 / tip above cap, nonce gaps and replays, interleaved with gateway precompile calls (in a third of the runs through a forwarder CONTRACT gateway, a quarter of those in a frame that reverts after the precompile returned, an eighth in STATICCALL / DELEGATECALL / nested reverting frames that pass value on) and cosmos transactions, base fee on or off, min-gas multiplier from genesis; around every transaction: nonce +1, min-multiplier x limit <= gas used <= limit, fee collector delta = gas used x effective price, sender delta = -(value + fee) with value 0 on failure, recipient delta, total supply unchanged, k included messages of a batch consume k nonces, a sender whose balance is below value + gas limit x price is charged nothing, a charge with reported gas used 0 is a violation, a reverted inner frame leaves no restaking state, and for failed executions and for transactions failing admission a byte-level dump of the evm and restaking stores must be unchanged; non-trivial = >= 10 executed, >= 1 failed execution, >= 1 rejected at admission, all three tx types seen",
		Assumptions: []string{"the proposer is the harness: transactions failing admission are delivered anyway (a Byzantine proposer could) and must then cost and change nothing", "contracts are hand-assembled bytecode (no Solidity artefacts)"},
		QuickRuns:   400, ThoroughRuns: 6000,
		GenConfig: func(p *PRNG, tier string) Config {
			c := SwarmConfig(p, SwarmOpts{})
			c.HugeAmounts = false
			c.MinGasMult = []string{"", "0", "0.5", "0.9", "1"}[p.Intn(5)]
			c.GatewayContract = p.Chance(1, 3)
			if p.Chance(1, 3) {
				c.BlockMaxGas = int64([]int{1_000_000, 5_000_000, 30_000_000}[p.Intn(3)])
			}
			return c
		},
		GenPlan:  c19Plan,
		Monitors: func() []Monitor { return []Monitor{&c19Monitor{}} },
		NonTrivial: func(r *Run) bool {
			m := r.Mons[0].(*c19Monitor)
			return m.Executed >= 10 && m.Failed >= 1 && m.Rejected >= 1 && len(m.Types) == 3
		},
	})
}
