package sim

import (
	"fmt"
	"math/big"
	"strings"

	sdkmath "cosmossdk.io/math"
	abci "github.com/cometbft/cometbft/abci/types"
	sdk "github.com/cosmos/cosmos-sdk/types"

	assetstypes "github.com/ExocoreNetwork/exocore/x/assets/types"
	avstypes "github.com/ExocoreNetwork/exocore/x/avs/types"
	operatortypes "github.com/ExocoreNetwork/exocore/x/operator/types"
)

// C05 — voting power equals priced, eligible stake.
type priceInfo struct {
	val *big.Int
	dec int64
}

type c05AVS struct {
	addr    string
	epochID string
	start   uint64
	assets  []string
	minSelf sdkmath.LegacyDec
	optedIn map[string]bool
}

type c05Snapshot struct {
	ledger   *Ledger
	prices   map[string]priceInfo // assetID -> latest price
	decimals map[string]int64
	optedIn  map[string]bool
	assets   []string
	minSelf  sdkmath.LegacyDec
	others   []*c05AVS // AVSs other than the chain's own
}

type c05Monitor struct {
	BaseMonitor
	prev       *c05Snapshot
	Checked    int
	PriceMoves int
	BelowMin   int
	OtherAVS   int
}

func (m *c05Monitor) Name() string { return "voting-power" }

var ten18 = new(big.Int).Exp(big.NewInt(10), big.NewInt(18), nil)

// truncDec18 truncates a rational to 18 fractional digits (as LegacyDec.QuoInt does) and returns value*10^18.
func truncDec18(q *big.Rat) *big.Int {
	n := new(big.Int).Mul(q.Num(), ten18)
	return n.Quo(n, q.Denom())
}

// roundDec18 rounds half-to-even to 18 fractional digits (as LegacyDec.Quo does) and returns value*10^18.
func roundDec18(q *big.Rat) *big.Int {
	// LegacyDec.Quo semantics, not exact rational rounding: the quotient is first truncated at 36
	// decimal digits and only then rounded half-even to 18, so a value whose digits 19..36 are exactly
	// 5000…0 followed by a non-zero tail is a tie for the code although it is above one half exactly.
	n := new(big.Int).Mul(q.Num(), ten18)
	n.Mul(n, ten18)
	n.Quo(n, q.Denom())
	quo, rem := new(big.Int).QuoRem(n, ten18, new(big.Int))
	half := new(big.Int).Quo(ten18, big.NewInt(2))
	switch rem.CmpAbs(half) {
	case 1:
		quo.Add(quo, big.NewInt(1))
	case 0:
		if quo.Bit(0) == 1 {
			quo.Add(quo, big.NewInt(1))
		}
	}
	return quo
}

func (m *c05Monitor) snapshot(r *Run, ctx sdk.Context) *c05Snapshot {
	app := r.Node.App
	s := &c05Snapshot{ledger: r.Ledger(ctx), prices: map[string]priceInfo{}, decimals: map[string]int64{}, optedIn: map[string]bool{}}
	assets, err := app.AVSManagerKeeper.GetAVSSupportedAssets(ctx, r.W.DogfoodAVS)
	if err != nil {
		return s
	}
	for a := range assets {
		s.assets = append(s.assets, a)
	}
	s.assets = sortedStrings(s.assets)
	for _, a := range s.assets {
		var p priceInfo
		_ = guard("probe", func() {
			pr, _ := app.OracleKeeper.GetSpecifiedAssetsPrice(ctx, a)
			if !pr.Value.IsNil() {
				p = priceInfo{val: pr.Value.BigInt(), dec: int64(pr.Decimal)}
			}
		})
		// the decimals of a token's price are part of the token's configuration, not of a
		// round: every accepted submission carries them, so the latest price must too
		if want, ok := m.tokenDecimals(r, ctx, a); ok && p.val != nil && p.dec != want && r.Viol == nil {
			r.Violate(m.Name(), "latest-price-carries-the-token's-price-decimals", "decimals", fmt.Sprintf("height %d: latest price of %s is %v with %d decimals, the token is configured with %d", ctx.BlockHeight(), a, p.val, p.dec, want))
		}
		s.prices[a] = p
		if info, err := app.AssetsKeeper.GetStakingAssetInfo(ctx, a); err == nil {
			s.decimals[a] = int64(info.AssetBasicInfo.Decimals)
		}
	}
	for _, o := range r.W.Ops {
		if info, err := app.OperatorKeeper.GetOptedInfo(ctx, o.Addr.String(), r.W.DogfoodAVS); err == nil && info != nil && info.OptedOutHeight == operatortypes.DefaultOptedOutHeight {
			s.optedIn[o.Addr.String()] = true
		}
	}
	ms, err := app.AVSManagerKeeper.GetAVSMinimumSelfDelegation(ctx, r.W.DogfoodAVS)
	if err == nil {
		s.minSelf = ms
	} else {
		s.minSelf = sdkmath.LegacyZeroDec()
	}
	// every other registered AVS, with its own asset list, minimum and epoch identifier
	app.AVSManagerKeeper.IterateAVSInfo(ctx, func(_ int64, info avstypes.AVSInfo) bool {
		if strings.EqualFold(info.AvsAddress, r.W.DogfoodAVS) {
			return false
		}
		a := &c05AVS{addr: info.AvsAddress, epochID: info.EpochIdentifier, start: info.StartingEpoch, assets: sortedStrings(info.AssetIDs),
			minSelf: sdkmath.LegacyNewDecFromInt(sdkmath.NewIntFromUint64(info.MinSelfDelegation)), optedIn: map[string]bool{}}
		for _, o := range r.W.Ops {
			if oi, err := app.OperatorKeeper.GetOptedInfo(ctx, o.Addr.String(), info.AvsAddress); err == nil && oi != nil && oi.OptedOutHeight == operatortypes.DefaultOptedOutHeight {
				a.optedIn[o.Addr.String()] = true
			}
		}
		for _, id := range a.assets {
			if _, ok := s.prices[id]; ok {
				continue
			}
			var p priceInfo
			_ = guard("probe", func() {
				pr, _ := app.OracleKeeper.GetSpecifiedAssetsPrice(ctx, id)
				if !pr.Value.IsNil() {
					p = priceInfo{val: pr.Value.BigInt(), dec: int64(pr.Decimal)}
				}
			})
			s.prices[id] = p
			if ai, err := app.AssetsKeeper.GetStakingAssetInfo(ctx, id); err == nil {
				s.decimals[id] = int64(ai.AssetBasicInfo.Decimals)
			}
		}
		s.others = append(s.others, a)
		return false
	})
	return s
}

// tokenDecimals returns the configured price decimals of the oracle token that prices an asset.
func (m *c05Monitor) tokenDecimals(r *Run, ctx sdk.Context, assetID string) (int64, bool) {
	for _, t := range r.Node.App.OracleKeeper.GetParams(ctx).Tokens {
		if t != nil && strings.Contains(t.AssetID, assetID) {
			return int64(t.Decimal), true
		}
	}
	return 0, false
}

func (m *c05Monitor) AfterInit(r *Run) { m.prev = m.snapshot(r, r.Node.DeliverCtx(r.Chain)) }

func (m *c05Monitor) AfterEndBlock(r *Run, ctx sdk.Context, _ abci.ResponseEndBlock) {
	s := m.snapshot(r, ctx)
	if r.Verbose {
		for _, a := range s.assets {
			r.Logf("  c05 price %s = %v/1e%d", a[:12], s.prices[a].val, s.prices[a].dec)
		}
	}
	if m.prev != nil {
		for a, p := range s.prices {
			if q, ok := m.prev.prices[a]; ok && p.val != nil && q.val != nil && p.val.Cmp(q.val) != 0 {
				m.PriceMoves++
				r.Probe("c05_price_changed")
			}
		}
	}
	m.prev = s
}

// otherAVSs: the same recomputation for every other AVS whose epoch ended in this block
func (m *c05Monitor) otherAVSs(r *Run, ctx sdk.Context) {
	if m.prev == nil {
		return
	}
	app := r.Node.App
	s := m.prev
	h := ctx.BlockHeight()
	for i := len(r.EpochCalls) - 1; i >= 0; i-- {
		c := r.EpochCalls[i]
		if c.Height != h {
			break
		}
		if c.Kind != "end" || c.Subscriber != 0 {
			continue
		}
		for _, a := range s.others {
			if a.epochID != c.ID || c.Number < int64(a.start)-1 {
				continue
			}
			avsTotal := new(big.Int)
			skipped := false
			for _, o := range r.W.Ops {
				addr := o.Addr.String()
				if !a.optedIn[addr] {
					continue
				}
				total, self := new(big.Int), new(big.Int)
				skip := false
				for _, id := range a.assets {
					pool, ok := s.ledger.Pools[addr+"/"+id]
					if !ok {
						continue
					}
					pr := s.prices[id]
					if pr.val == nil || pool.TotalAmount.BigInt().BitLen() > 100 {
						skip = true
						break
					}
					div := new(big.Int).Exp(big.NewInt(10), big.NewInt(s.decimals[id]+pr.dec), nil)
					total.Add(total, truncDec18(new(big.Rat).SetFrac(new(big.Int).Mul(pool.TotalAmount.BigInt(), pr.val), div)))
					selfTok := new(big.Int)
					if !pool.TotalShare.IsZero() {
						q := new(big.Rat).Mul(ratOf(pool.OperatorShare), new(big.Rat).SetInt(pool.TotalAmount.BigInt()))
						q.Quo(q, ratOf(pool.TotalShare))
						selfTok = new(big.Int).Quo(roundDec18(q), ten18)
					}
					self.Add(self, truncDec18(new(big.Rat).SetFrac(new(big.Int).Mul(selfTok, pr.val), div)))
				}
				if skip {
					skipped = true
					continue
				}
				got, err := app.OperatorKeeper.GetOperatorOptedUSDValue(ctx, a.addr, addr)
				if err != nil {
					r.Violate(m.Name(), "opted-in-operator-has-recorded-value", "missing:other-avs", fmt.Sprintf("height %d: operator %s opted into AVS %s has no recorded USD value: %v", h, addr, a.addr, err))
					return
				}
				active := new(big.Int)
				if self.Cmp(a.minSelf.BigInt()) >= 0 {
					active.Set(total)
				} else {
					m.BelowMin++
					r.Probe("c05_self_below_minimum_other_avs")
				}
				avsTotal.Add(avsTotal, active)
				m.Checked++
				m.OtherAVS++
				switch {
				case got.TotalUSDValue.BigInt().Cmp(total) != 0:
					r.Violate(m.Name(), "total-value-equals-priced-pools", "total:other-avs", fmt.Sprintf("height %d AVS %s (epoch %q %d) operator %s: recorded total %s, model %s", h, a.addr, c.ID, c.Number, addr, got.TotalUSDValue, decStr(total)))
					return
				case got.SelfUSDValue.BigInt().Cmp(self) != 0:
					r.Violate(m.Name(), "self-value-equals-priced-self-share", "self:other-avs", fmt.Sprintf("height %d AVS %s operator %s: recorded self %s, model %s", h, a.addr, addr, got.SelfUSDValue, decStr(self)))
					return
				case got.ActiveUSDValue.BigInt().Cmp(active) != 0:
					r.Violate(m.Name(), "active-value-is-total-iff-self-meets-minimum", "active:other-avs", fmt.Sprintf("height %d AVS %s operator %s: recorded active %s, model %s (self %s, minimum %s)", h, a.addr, addr, got.ActiveUSDValue, decStr(active), decStr(self), a.minSelf))
					return
				}
			}
			if avs, err := app.OperatorKeeper.GetAVSUSDValue(ctx, a.addr); err == nil && !skipped && avs.BigInt().Cmp(avsTotal) != 0 {
				r.Violate(m.Name(), "avs-value-is-sum-of-active-values", "avs:other-avs", fmt.Sprintf("height %d: AVS %s value %s, sum of active values %s", h, a.addr, avs, decStr(avsTotal)))
				return
			}
		}
	}
}

func (m *c05Monitor) AfterBeginBlock(r *Run, ctx sdk.Context) {
	m.otherAVSs(r, ctx)
	if r.Viol != nil {
		return
	}
	ended, _ := r.dogfoodEpochEnded(ctx.BlockHeight())
	if !ended || m.prev == nil {
		return
	}
	app := r.Node.App
	s := m.prev
	avsTotal := new(big.Int)
	for _, o := range r.W.Ops {
		addr := o.Addr.String()
		got, err := app.OperatorKeeper.GetOperatorOptedUSDValue(ctx, r.W.DogfoodAVS, addr)
		if !s.optedIn[addr] {
			if err == nil && (!got.TotalUSDValue.IsZero() || !got.ActiveUSDValue.IsZero()) {
				// an operator that opted in during this block cannot exist (BeginBlock has no txs)
				r.Violate(m.Name(), "not-opted-in-contributes-nothing", "value-recorded", fmt.Sprintf("operator %s is not opted in but has recorded values %+v", addr, got))
				return
			}
			continue
		}
		total, self := new(big.Int), new(big.Int)
		skip := false
		for _, a := range s.assets {
			pool, ok := s.ledger.Pools[addr+"/"+a]
			if !ok {
				continue
			}
			pr := s.prices[a]
			if pr.val == nil {
				skip = true
				break
			}
			if pool.TotalAmount.BigInt().BitLen() > 100 {
				skip = true // out of this property's practical range; overflow behaviour is C11's
				break
			}
			div := new(big.Int).Exp(big.NewInt(10), big.NewInt(s.decimals[a]+pr.dec), nil)
			tv := new(big.Rat).SetFrac(new(big.Int).Mul(pool.TotalAmount.BigInt(), pr.val), div)
			total.Add(total, truncDec18(tv))
			// token equivalent of the self share
			selfTok := new(big.Int)
			if !pool.TotalShare.IsZero() {
				q := new(big.Rat).Mul(ratOf(pool.OperatorShare), new(big.Rat).SetInt(pool.TotalAmount.BigInt()))
				q.Quo(q, ratOf(pool.TotalShare))
				selfTok = new(big.Int).Quo(roundDec18(q), ten18)
			}
			sv := new(big.Rat).SetFrac(new(big.Int).Mul(selfTok, pr.val), div)
			self.Add(self, truncDec18(sv))
		}
		if skip {
			continue
		}
		if err != nil {
			r.Violate(m.Name(), "opted-in-operator-has-recorded-value", "missing", fmt.Sprintf("opted-in operator %s has no recorded USD value: %v", addr, err))
			return
		}
		m.Checked++
		active := new(big.Int)
		if self.Cmp(s.minSelf.BigInt()) >= 0 {
			active.Set(total)
		} else {
			m.BelowMin++
			r.Probe("c05_self_below_minimum")
		}
		avsTotal.Add(avsTotal, active)
		if got.TotalUSDValue.IsNegative() || got.SelfUSDValue.IsNegative() || got.ActiveUSDValue.IsNegative() {
			r.Violate(m.Name(), "values-non-negative", "negative", fmt.Sprintf("operator %s: %+v", addr, got))
			return
		}
		if got.TotalUSDValue.BigInt().Cmp(total) != 0 {
			r.Violate(m.Name(), "total-value-equals-priced-pools", "total", fmt.Sprintf("height %d operator %s: recorded total %s, model %s (x1e-18); pools/prices: %s", ctx.BlockHeight(), addr, got.TotalUSDValue, decStr(total), m.describe(s, addr)))
			return
		}
		if got.SelfUSDValue.BigInt().Cmp(self) != 0 {
			r.Violate(m.Name(), "self-value-equals-priced-self-share", "self", fmt.Sprintf("height %d operator %s: recorded self %s, model %s; %s", ctx.BlockHeight(), addr, got.SelfUSDValue, decStr(self), m.describe(s, addr)))
			return
		}
		if got.ActiveUSDValue.BigInt().Cmp(active) != 0 {
			r.Violate(m.Name(), "active-value-is-total-iff-self-meets-minimum", "active", fmt.Sprintf("height %d operator %s: recorded active %s, model %s (self %s, min %s)", ctx.BlockHeight(), addr, got.ActiveUSDValue, decStr(active), decStr(self), s.minSelf))
			return
		}
	}
	avs, err := app.OperatorKeeper.GetAVSUSDValue(ctx, r.W.DogfoodAVS)
	if err == nil && avs.BigInt().Cmp(avsTotal) != 0 {
		// only comparable when no operator was skipped
		skipped := false
		for _, o := range r.W.Ops {
			if !s.optedIn[o.Addr.String()] {
				continue
			}
			for _, a := range s.assets {
				if p, ok := s.ledger.Pools[o.Addr.String()+"/"+a]; ok && (p.TotalAmount.BigInt().BitLen() > 100 || s.prices[a].val == nil) {
					skipped = true
				}
			}
		}
		if !skipped {
			r.Violate(m.Name(), "avs-value-is-sum-of-active-values", "avs", fmt.Sprintf("height %d: AVS value %s, sum of active values %s", ctx.BlockHeight(), avs, decStr(avsTotal)))
		}
	}
}

func decStr(v *big.Int) string {
	return sdkmath.LegacyNewDecFromBigIntWithPrec(v, 18).String()
}

func (m *c05Monitor) describe(s *c05Snapshot, addr string) string {
	var parts []string
	for _, a := range s.assets {
		if p, ok := s.ledger.Pools[addr+"/"+a]; ok {
			pr := s.prices[a]
			parts = append(parts, fmt.Sprintf("%s: amount %s share %s/%s dec %d price %v/1e%d", a[:10], p.TotalAmount, p.OperatorShare, p.TotalShare, s.decimals[a], pr.val, pr.dec))
		}
	}
	return strings.Join(parts, "; ")
}

func c05Plan(p *PRNG, cfg Config, tier string) Plan {
	o := LedgerGenOpts{DowntimeBursts: true, Evidence: true, EpochJumps: true,
		W: map[string]int{"dep": 8, "wd": 2, "del": 10, "und": 8, "assoc": 4, "dissoc": 3, "ndel": 3, "nund": 2, "optin": 4, "optout": 3, "setkey": 1, "unjail": 1}}
	if tier == "thorough" {
		o.MinBlocks, o.MaxBlocks = 40, 140
	}
	o.DowntimeBursts, o.Evidence = p.Chance(1, 2), p.Chance(1, 2)
	plan := GenLedgerPlan(p, cfg, o)
	if f, ok := extraHostile["avs"]; ok && p.Chance(1, 2) {
		// other AVSs with their own asset lists, minimum self delegation and epoch identifiers
		plan = f(p, cfg, plan)
	}
	// oracle rounds: all validators agree on a new price for some feeder
	prices := []string{"1", "2", "7", "250", "99999", "1000000000", "123456789012"}
	for bi := range plan.Blocks {
		if p.Chance(1, 3) {
			f := 1 + p.Intn(len(cfg.Assets))
			plan.Blocks[bi].Ops = append(plan.Blocks[bi].Ops, PriceRound(cfg.NOps, f, prices[p.Intn(len(prices))])...)
		}
	}
	return plan
}

func init() {
	Register(&PropSpec{
		ID: "C05", Level: "exploration",
		Rule: "C01 workload (delegations, undelegations, associations, opt-in/out, slashing) plus oracle rounds in which all validators submit an agreed new price for a random feeder (asset decimals 0-18, price decimals 0-18, prices 1..1e12); at every BeginBlock that ends a dogfood epoch the recorded total/self/active USD value of every opted-in operator and the AVS value are recomputed from the state committed by the previous block with exact rationals (per-asset truncation to 18 digits, active = total iff self >= minimum) and compared; non-trivial = >= 3 operator values checked after >= 1 real price change AND >= 1 operator below the minimum self-delegation or >= 2 assets priced",
		Assumptions: append([]string{"in half of the runs further AVSs (own asset lists, minimum self delegation 0..1e6, epoch identifier = dogfood / minute / hour) are registered and opted into; they are recomputed at the ends of their own epochs from the epoch preceding their starting epoch onwards", "the latest price is read through the oracle keeper's public getter"}, ledgerAssumptions...),
		QuickRuns:   600, ThoroughRuns: 10000,
		GenConfig: func(p *PRNG, tier string) Config {
			c := SwarmConfig(p, SwarmOpts{EpochSecs: []int64{15, 20, 30}})
			c.HugeAmounts = false
			return c
		},
		GenPlan:  c05Plan,
		Monitors: func() []Monitor { return []Monitor{&c05Monitor{}} },
		NonTrivial: func(r *Run) bool {
			m := r.Mons[0].(*c05Monitor)
			return m.Checked >= 3 && m.PriceMoves > 0 && (m.BelowMin > 0 || len(r.Cfg.Assets) >= 2)
		},
	})
}

var _ = assetstypes.ExocoreAssetID
