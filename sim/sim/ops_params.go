package sim

import (
	sdk "github.com/cosmos/cosmos-sdk/types"
	authtypes "github.com/cosmos/cosmos-sdk/x/auth/types"
	govtypes "github.com/cosmos/cosmos-sdk/x/gov/types"

	"github.com/ExocoreNetwork/exocore/utils"
	assetstypes "github.com/ExocoreNetwork/exocore/x/assets/types"
	dogfoodtypes "github.com/ExocoreNetwork/exocore/x/dogfood/types"
	exominttypes "github.com/ExocoreNetwork/exocore/x/exomint/types"
	distrtypes "github.com/ExocoreNetwork/exocore/x/feedistribution/types"
	operatortypes "github.com/ExocoreNetwork/exocore/x/operator/types"
	oracletypes "github.com/ExocoreNetwork/exocore/x/oracle/types"
)

func init() {
	// mparams: parameter update of module D (0 dogfood, 1 oracle, 2 exomint, 3 feedistribution, 4 assets)
	// sent by user A. M=0: authority field = the user's own address; M=1: authority field = the
	// governance module address although the user signs (forged).
	extraBuilders["mparams"] = func(r *Run, ctx sdk.Context, op Op) (*BuiltTx, error) {
		w := r.W
		u := w.Users[((op.A%len(w.Users))+len(w.Users))%len(w.Users)]
		auth := u.Addr.String()
		if op.M == 1 {
			auth = authtypes.NewModuleAddress(govtypes.ModuleName).String()
		}
		app := r.Node.App
		var msg sdk.Msg
		bt := &BuiltTx{Op: op}
		switch ((op.D % 5) + 5) % 5 {
		case 0:
			bt.Method = "dogfood.MsgUpdateParams"
			msg = &dogfoodtypes.MsgUpdateParams{Authority: auth, Params: dogfoodtypes.Params{EpochsUntilUnbonded: uint32(1 + op.N%4)}}
		case 1:
			bt.Method = "oracle.MsgUpdateParams"
			msg = &oracletypes.MsgUpdateParams{Authority: auth, Params: oracletypes.Params{MaxSizePrices: int32(3 + op.N%5)}}
		case 2:
			bt.Method = "exomint.MsgUpdateParams"
			p := app.ExomintKeeper.GetParams(ctx)
			p.EpochReward = p.EpochReward.AddRaw(1 + op.N)
			msg = &exominttypes.MsgUpdateParams{Authority: auth, Params: p}
		case 3:
			bt.Method = "feedistribution.MsgUpdateParams"
			p := app.DistrKeeper.GetParams(ctx)
			msg = &distrtypes.MsgUpdateParams{Authority: auth, Params: p}
		case 4:
			bt.Method = "assets.MsgUpdateParams"
			p, err := app.AssetsKeeper.GetParams(ctx)
			if err != nil || p == nil {
				p = &assetstypes.Params{ExocoreLzAppAddress: w.GatewayAddrHex(), ExocoreLzAppEventTopic: assetstypes.DefaultExocoreLzAppEventTopic}
			}
			msg = &assetstypes.MsgUpdateParams{Authority: auth, Params: *p}
		}
		ok := !utils.IsMainnet(r.Cfg.ChainID) && op.M == 0
		bt.Authorized = &ok
		return bt, r.cosmosTx(ctx, u, bt, msg)
	}
	// forge: an operator message for operator A's address, signed by user C's key
	extraBuilders["forge"] = func(r *Run, ctx sdk.Context, op Op) (*BuiltTx, error) {
		w := r.W
		o := w.Op(op.A)
		u := w.Users[((op.C%len(w.Users))+len(w.Users))%len(w.Users)]
		bt := &BuiltTx{Op: op, Operator: o.Addr}
		var msg sdk.Msg
		switch op.D % 3 {
		case 0:
			bt.Method = "forged.OptOutOfAVS"
			msg = &operatortypes.OptOutOfAVSReq{FromAddress: o.Addr.String(), AvsAddress: w.DogfoodAVS}
		case 1:
			bt.Method = "forged.SetConsKey"
			msg = &operatortypes.SetConsKeyReq{Address: o.Addr.String(), AvsAddress: w.DogfoodAVS, PublicKeyJSON: ConsPub(o.ConsKeys[ConsKeyPool-1]).ToJSON()}
		default:
			bt.Method = "forged.OptIntoAVS"
			msg = &operatortypes.OptIntoAVSReq{FromAddress: o.Addr.String(), AvsAddress: w.DogfoodAVS, PublicKeyJSON: ConsPub(o.ConsKeys[ConsKeyPool-2]).ToJSON()}
		}
		// signed by the user's key with the user's account number/sequence
		acc := r.Node.App.AccountKeeper.GetAccount(ctx, u.Addr)
		bz, err := CosmosTx(r.Cfg.ChainID, u.Priv, acc.GetAccountNumber(), acc.GetSequence(), 2_000_000, sdk.NewInt(2_000_000_000_000_000), msg)
		if err != nil {
			return nil, err
		}
		bt.Bytes, bt.Kind, bt.Sender = bz, "cosmos", u.Addr
		return bt, nil
	}
	extraHostile["params"] = func(p *PRNG, cfg Config, plan Plan) Plan {
		for i := range plan.Blocks {
			if p.Chance(1, 2) {
				plan.Blocks[i].Ops = append(plan.Blocks[i].Ops, Op{K: "mparams", A: p.Intn(3), D: p.Intn(5), M: p.Intn(2), N: int64(p.Intn(4))})
			} else {
				plan.Blocks[i].Ops = append(plan.Blocks[i].Ops, Op{K: "forge", A: p.Intn(cfg.NOps), C: p.Intn(3), D: p.Intn(3)})
			}
		}
		return plan
	}
}
