package sim

import (
	"fmt"
	"math/big"
	"sort"
	"strings"

	sdkmath "cosmossdk.io/math"
	sdk "github.com/cosmos/cosmos-sdk/types"
	authtypes "github.com/cosmos/cosmos-sdk/x/auth/types"

	assetstypes "github.com/ExocoreNetwork/exocore/x/assets/types"
	delegationtypes "github.com/ExocoreNetwork/exocore/x/delegation/types"
)

// Ledger is a snapshot of the restaking ledger read through the keepers' public getters.
type Ledger struct {
	Height   int64
	Stakers  map[string]assetstypes.StakerAssetInfo   // stakerID/assetID
	Pools    map[string]assetstypes.OperatorAssetInfo // operator/assetID
	Records  map[string]delegationtypes.UndelegationRecord // record key
	RecOrder []string
	Holds    map[string]uint64
	Deleg    map[string]delegationtypes.DelegationAmounts // stakerID/assetID/operator
	StakerLists map[string][]string                     // operator/assetID -> stakers
	Assoc    map[string]string                            // stakerID -> operator
	Totals   map[string]sdkmath.Int                       // assetID -> StakingTotalAmount
	Escrow   sdkmath.Int
	DupRecordKeys int
	NativeBal map[string]sdkmath.Int // native account -> bank balance
}

func recKey(r delegationtypes.UndelegationRecord) string {
	return string(delegationtypes.GetUndelegationRecordKey(r.BlockNumber, r.LzTxNonce, r.TxHash, r.OperatorAddr))
}

func emptyLedger() *Ledger {
	return &Ledger{Stakers: map[string]assetstypes.StakerAssetInfo{}, Pools: map[string]assetstypes.OperatorAssetInfo{},
		Records: map[string]delegationtypes.UndelegationRecord{}, Holds: map[string]uint64{}, Deleg: map[string]delegationtypes.DelegationAmounts{},
		StakerLists: map[string][]string{}, Assoc: map[string]string{}, Totals: map[string]sdkmath.Int{}, Escrow: sdkmath.ZeroInt(),
		NativeBal: map[string]sdkmath.Int{}}
}

// TakeLedger reads the ledger from a context.
func (r *Run) TakeLedger(ctx sdk.Context) (*Ledger, error) {
	app := r.Node.App
	l := emptyLedger()
	l.Height = ctx.BlockHeight()
	for _, n := range r.W.Natives {
		l.NativeBal[n.Addr.String()] = app.BankKeeper.GetBalance(ctx, n.Addr, assetstypes.ExocoreAssetDenom).Amount
	}
	deps, err := app.AssetsKeeper.AllDeposits(ctx)
	if err != nil {
		return nil, fmt.Errorf("AllDeposits: %w", err)
	}
	for _, d := range deps {
		for _, a := range d.Deposits {
			l.Stakers[d.StakerID+"/"+a.AssetID] = a.Info
		}
	}
	oas, err := app.AssetsKeeper.AllOperatorAssets(ctx)
	if err != nil {
		return nil, fmt.Errorf("AllOperatorAssets: %w", err)
	}
	for _, o := range oas {
		for _, a := range o.AssetsState {
			l.Pools[o.Operator+"/"+a.AssetID] = a.Info
		}
	}
	recs, err := app.DelegationKeeper.AllUndelegations(ctx)
	if err != nil {
		return nil, fmt.Errorf("AllUndelegations: %w", err)
	}
	for _, rec := range recs {
		k := recKey(rec)
		if _, dup := l.Records[k]; dup {
			l.DupRecordKeys++
		}
		l.Records[k] = rec
		l.RecOrder = append(l.RecOrder, k)
		l.Holds[k] = app.DelegationKeeper.GetUndelegationHoldCount(ctx, []byte(k))
	}
	sort.Strings(l.RecOrder)
	ds, err := app.DelegationKeeper.AllDelegationStates(ctx)
	if err != nil {
		return nil, fmt.Errorf("AllDelegationStates: %w", err)
	}
	for _, d := range ds {
		l.Deleg[d.Key] = d.States
	}
	sl, err := app.DelegationKeeper.AllStakerList(ctx)
	if err != nil {
		return nil, fmt.Errorf("AllStakerList: %w", err)
	}
	for _, s := range sl {
		l.StakerLists[s.Key] = append([]string{}, s.Stakers...)
	}
	as, err := app.DelegationKeeper.GetAllAssociations(ctx)
	if err != nil {
		return nil, fmt.Errorf("GetAllAssociations: %w", err)
	}
	for _, a := range as {
		l.Assoc[a.StakerID] = a.Operator
	}
	infos, err := app.AssetsKeeper.GetAllStakingAssetsInfo(ctx)
	if err != nil {
		return nil, fmt.Errorf("GetAllStakingAssetsInfo: %w", err)
	}
	for _, info := range infos {
		_, id := assetstypes.GetStakerIDAndAssetIDFromStr(info.AssetBasicInfo.LayerZeroChainID, "", info.AssetBasicInfo.Address)
		l.Totals[id] = info.StakingTotalAmount
	}
	esc := authtypes.NewModuleAddress(delegationtypes.DelegatedPoolName)
	l.Escrow = app.BankKeeper.GetBalance(ctx, esc, assetstypes.ExocoreAssetDenom).Amount
	return l, nil
}

// AssetSum returns withdrawable + pools + pending-owed of an asset.
func (l *Ledger) AssetSum(assetID string) (w, p, u *big.Int) {
	w, p, u = new(big.Int), new(big.Int), new(big.Int)
	for k, s := range l.Stakers {
		if strings.HasSuffix(k, "/"+assetID) {
			w.Add(w, s.WithdrawableAmount.BigInt())
		}
	}
	for k, o := range l.Pools {
		if strings.HasSuffix(k, "/"+assetID) {
			p.Add(p, o.TotalAmount.BigInt())
		}
	}
	for _, rec := range l.Records {
		if rec.AssetID == assetID {
			u.Add(u, rec.ActualCompletedAmount.BigInt())
		}
	}
	return
}

func (l *Ledger) Total(assetID string) *big.Int {
	w, p, u := l.AssetSum(assetID)
	return new(big.Int).Add(w, new(big.Int).Add(p, u))
}

// SortedKeys helpers
func sortedKeysAny[V any](m map[string]V) []string {
	ks := make([]string, 0, len(m))
	for k := range m {
		ks = append(ks, k)
	}
	sort.Strings(ks)
	return ks
}
