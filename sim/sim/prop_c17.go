package sim

import (
	"fmt"
	"math/big"
	"strings"

	sdkmath "cosmossdk.io/math"
	abci "github.com/cometbft/cometbft/abci/types"
	sdk "github.com/cosmos/cosmos-sdk/types"
	authtypes "github.com/cosmos/cosmos-sdk/x/auth/types"

	distrtypes "github.com/ExocoreNetwork/exocore/x/feedistribution/types"
)

// C17 — native supply and fee distribution are conserved.
type c17Snap struct {
	supply     sdkmath.Int
	feeColl    sdkmath.Int
	distrBal   sdkmath.Int
	community  sdk.DecCoins
	commission sdk.DecCoins
	stakers    sdk.DecCoins
	outstanding sdk.DecCoins
	perVal     map[string]sdk.DecCoins // validator outstanding
	perValComm map[string]sdk.DecCoins // validator accumulated commission
	valPower   map[string]int64        // operator -> power in the stored validator set
	rate       map[string]sdkmath.LegacyDec
	hasKey     map[string]bool // operator currently has a consensus key for this chain (the allocation's second lookup)
	totalPower int64
	tax        sdkmath.LegacyDec
}

type c17Monitor struct {
	BaseMonitor
	prev      *c17Snap
	denom     string
	Mints     int
	Distrs    int
	NonZero   int
	ZeroPower int
	PerValChecked int
	SkippedNoKey  int
	stakerIDs map[string]bool
}

func (m *c17Monitor) Name() string { return "supply-and-fees" }

func (m *c17Monitor) snap(r *Run, ctx sdk.Context) *c17Snap {
	app := r.Node.App
	s := &c17Snap{perVal: map[string]sdk.DecCoins{}, perValComm: map[string]sdk.DecCoins{}, valPower: map[string]int64{}, rate: map[string]sdkmath.LegacyDec{}, hasKey: map[string]bool{}}
	s.totalPower = app.StakingKeeper.GetLastTotalPower(ctx).Int64()
	s.tax = sdkmath.LegacyZeroDec()
	if t, err := app.DistrKeeper.GetCommunityTax(ctx); err == nil {
		s.tax = t
	}
	for _, v := range app.StakingKeeper.GetAllExocoreValidators(ctx) {
		if found, acc := app.OperatorKeeper.GetOperatorAddressForChainIDAndConsAddr(ctx, r.W.ChainIDNoRev, sdk.ConsAddress(v.Address)); found {
			s.valPower[acc.String()] += v.Power
		}
	}
	s.supply = app.BankKeeper.GetSupply(ctx, m.denom).Amount
	s.feeColl = app.BankKeeper.GetBalance(ctx, authtypes.NewModuleAddress(authtypes.FeeCollectorName), m.denom).Amount
	s.distrBal = app.BankKeeper.GetBalance(ctx, authtypes.NewModuleAddress(distrtypes.ModuleName), m.denom).Amount
	if fp := app.DistrKeeper.GetFeePool(ctx); fp != nil {
		s.community = fp.CommunityPool
	}
	for _, o := range r.W.Ops {
		va := sdk.ValAddress(o.Addr)
		comm := app.DistrKeeper.GetValidatorAccumulatedCommission(ctx, va).Commission
		s.commission = s.commission.Add(comm...)
		s.perValComm[o.Addr.String()] = comm
		if found, _, err := app.OperatorKeeper.GetOperatorConsKeyForChainID(ctx, o.Addr, r.W.ChainIDNoRev); found && err == nil {
			s.hasKey[o.Addr.String()] = true
		}
		if info, err := app.OperatorKeeper.OperatorInfo(ctx, o.Addr.String()); err == nil && info != nil {
			s.rate[o.Addr.String()] = info.Commission.Rate
		}
		out := app.DistrKeeper.GetValidatorOutstandingRewards(ctx, va).Rewards
		s.outstanding = s.outstanding.Add(out...)
		s.perVal[o.Addr.String()] = out
	}
	// all staker identities that ever delegated
	l := r.Ledger(ctx)
	if m.stakerIDs == nil {
		m.stakerIDs = map[string]bool{}
	}
	for k := range l.Deleg {
		if i := strings.IndexByte(k, '/'); i > 0 {
			m.stakerIDs[k[:i]] = true
		}
	}
	for _, id := range sortedBoolKeys(m.stakerIDs) {
		s.stakers = s.stakers.Add(app.DistrKeeper.GetStakerRewards(ctx, id).Rewards...)
	}
	return s
}

func sortedBoolKeys(m map[string]bool) []string {
	mm := map[string]int{}
	for k := range m {
		mm[k] = 1
	}
	return sortedKeys(mm)
}

func (m *c17Monitor) AfterInit(r *Run) {
	ctx := r.Node.DeliverCtx(r.Chain)
	m.denom = r.Node.App.ExomintKeeper.GetParams(ctx).MintDenom
	m.prev = m.snap(r, ctx)
}

func (m *c17Monitor) epochEnded(r *Run, h int64, id string) bool {
	for i := len(r.EpochCalls) - 1; i >= 0; i-- {
		c := r.EpochCalls[i]
		if c.Height != h {
			break
		}
		if c.Kind == "end" && c.ID == id && c.Subscriber == 0 {
			return true
		}
	}
	return false
}

func decAmt(c sdk.DecCoins, denom string) sdkmath.LegacyDec { return c.AmountOf(denom) }

func (m *c17Monitor) claimsWithinBalance(r *Run, s *c17Snap, what string) {
	claims := decAmt(s.community, m.denom).Add(decAmt(s.commission, m.denom)).Add(decAmt(s.stakers, m.denom))
	if claims.GT(sdkmath.LegacyNewDecFromInt(s.distrBal)) {
		r.Violate(m.Name(), "booked-claims-never-exceed-distribution-account", "claims-above-balance", fmt.Sprintf("%s: community pool %s + commissions %s + staker rewards %s = %s exceeds the distribution account balance %s", what, decAmt(s.community, m.denom), decAmt(s.commission, m.denom), decAmt(s.stakers, m.denom), claims, s.distrBal))
	}
}

func (m *c17Monitor) AfterBeginBlock(r *Run, ctx sdk.Context) {
	h := ctx.BlockHeight()
	app := r.Node.App
	cur := m.snap(r, ctx)
	mp := app.ExomintKeeper.GetParams(ctx)
	dp := app.DistrKeeper.GetParams(ctx)
	// replay the epoch ends of this block in their real order (identifiers in store order; for one
	// identifier the distribution subscriber runs before the mint subscriber)
	minted := sdkmath.ZeroInt()
	moved := sdkmath.ZeroInt()
	distributed := false
	bal := m.prev.feeColl
	for _, c := range r.EpochCalls {
		if c.Height != h || c.Kind != "end" || c.Subscriber != 0 {
			continue
		}
		if c.ID == dp.EpochIdentifier {
			moved = moved.Add(bal)
			bal = sdkmath.ZeroInt()
			distributed = true
		}
		if c.ID == mp.EpochIdentifier && !mp.EpochReward.IsZero() {
			minted = minted.Add(mp.EpochReward)
			bal = bal.Add(mp.EpochReward)
			m.Mints++
		}
	}
	if d := cur.supply.Sub(m.prev.supply); !d.Equal(minted) {
		r.Violate(m.Name(), "supply-changes-only-by-epoch-reward", "begin-block", fmt.Sprintf("height %d: supply of %s changed by %s in BeginBlock, expected mint %s", h, m.denom, d, minted))
		return
	}
	if distributed {
		m.Distrs++
		if moved.IsPositive() {
			m.NonZero++
		}
		if app.StakingKeeper.GetLastTotalPower(ctx).IsZero() {
			m.ZeroPower++
		}
	}
	// the whole fee-collector balance moves to the distribution account
	if got := cur.distrBal.Sub(m.prev.distrBal); !got.Equal(moved) {
		r.Violate(m.Name(), "whole-fee-collector-balance-moves-at-distribution-epoch-end", "moved", fmt.Sprintf("height %d (distribution epoch ended=%v): distribution account changed by %s, fee collector held %s", h, distributed, got, moved))
		return
	}
	if want := bal; !cur.feeColl.Equal(want) {
		r.Violate(m.Name(), "whole-fee-collector-balance-moves-at-distribution-epoch-end", "fee-collector", fmt.Sprintf("height %d: fee collector holds %s after BeginBlock, expected %s (before %s, moved %s, minted %s)", h, cur.feeColl, want, m.prev.feeColl, moved, minted))
		return
	}
	// booked claims add up to exactly the amount moved
	dCommunity := decAmt(cur.community, m.denom).Sub(decAmt(m.prev.community, m.denom))
	dCommission := decAmt(cur.commission, m.denom).Sub(decAmt(m.prev.commission, m.denom))
	dStakers := decAmt(cur.stakers, m.denom).Sub(decAmt(m.prev.stakers, m.denom))
	booked := dCommunity.Add(dCommission).Add(dStakers)
	if !booked.Equal(sdkmath.LegacyNewDecFromInt(moved)) {
		r.Violate(m.Name(), "booked-claims-add-up-to-amount-moved", "sum", fmt.Sprintf("height %d: moved %s but booked community %s + commissions %s + staker rewards %s = %s", h, moved, dCommunity, dCommission, dStakers, booked))
		return
	}
	if dCommunity.IsNegative() || dCommission.IsNegative() || dStakers.IsNegative() {
		r.Violate(m.Name(), "booked-claims-add-up-to-amount-moved", "negative-booking", fmt.Sprintf("height %d: community %s commissions %s stakers %s", h, dCommunity, dCommission, dStakers))
		return
	}
	// each validator's portion is proportional to its voting power and split by its commission rate
	if distributed && moved.IsPositive() && m.prev.totalPower > 0 && r.Viol == nil {
		F := new(big.Rat).SetInt(moved.BigInt())
		oneMinusTax := new(big.Rat).Sub(big.NewRat(1, 1), ratOf(m.prev.tax))
		tol := new(big.Rat).Mul(F, big.NewRat(4, 1)) // a few 1e-18 truncations of numbers up to F
		tol.Add(tol, big.NewRat(4, 1))
		tol.Quo(tol, new(big.Rat).SetInt(ten18))
		for _, o := range r.W.Ops {
			a := o.Addr.String()
			portion := ratOf(decAmt(cur.perVal[a], m.denom).Sub(decAmt(m.prev.perVal[a], m.denom)))
			comm := ratOf(decAmt(cur.perValComm[a], m.denom).Sub(decAmt(m.prev.perValComm[a], m.denom)))
			pw := m.prev.valPower[a]
			want := new(big.Rat).Mul(F, oneMinusTax)
			want.Mul(want, big.NewRat(pw, m.prev.totalPower))
			if portion.Sign() == 0 && comm.Sign() == 0 {
				// a validator without power gets nothing. one WITH power may only be passed over when the
				// allocation cannot resolve it (operator left without a consensus key while its validator
				// is still in the stored set, see K7c); its share then stays in the community pool
				if pw > 0 && want.Cmp(tol) > 0 {
					if m.prev.hasKey[a] {
						r.Violate(m.Name(), "validator-portion-proportional-to-voting-power", "nothing-allocated", fmt.Sprintf("height %d: validator %s (power %d of %d, tax %s, resolvable by consensus address and key) was allocated nothing of the %s moved, proportional share %s", h, a, pw, m.prev.totalPower, m.prev.tax, moved, want.FloatString(18)))
						return
					}
					m.SkippedNoKey++
					r.Probe("c17_validator_with_power_unresolvable_skipped")
				}
				continue
			}
			if d := new(big.Rat).Sub(portion, want); d.Abs(d).Cmp(tol) > 0 {
				r.Violate(m.Name(), "validator-portion-proportional-to-voting-power", "portion", fmt.Sprintf("height %d: validator %s (power %d of %d, tax %s) was allocated %s of the %s moved, proportional share %s", h, a, pw, m.prev.totalPower, m.prev.tax, portion.FloatString(18), moved, want.FloatString(18)))
				return
			}
			rate, ok := m.prev.rate[a]
			if !ok {
				continue
			}
			wantComm := new(big.Rat).Mul(portion, ratOf(rate))
			if d := new(big.Rat).Sub(comm, wantComm); d.Abs(d).Cmp(tol) > 0 {
				r.Violate(m.Name(), "validator-portion-split-by-commission-rate", "commission", fmt.Sprintf("height %d: validator %s with commission rate %s was allocated %s and booked commission %s, expected %s", h, a, rate, portion.FloatString(18), comm.FloatString(18), wantComm.FloatString(18)))
				return
			}
			m.PerValChecked++
			r.Probe("c17_validator_portion_checked")
		}
	}
	m.claimsWithinBalance(r, cur, fmt.Sprintf("height %d begin-block", h))
	m.prev = cur
}

func (m *c17Monitor) AfterTx(r *Run, ctx sdk.Context, tx *TxResult) {
	cur := m.snap(r, ctx)
	if !cur.supply.Equal(m.prev.supply) {
		r.Violate(m.Name(), "supply-changes-only-by-epoch-reward", "tx:"+entryPoint(tx), fmt.Sprintf("tx %s changed the supply of %s from %s to %s", tx.Op, m.denom, m.prev.supply, cur.supply))
		return
	}
	if !cur.community.IsEqual(m.prev.community) || !cur.commission.IsEqual(m.prev.commission) || !cur.stakers.IsEqual(m.prev.stakers) {
		r.Violate(m.Name(), "booked-claims-add-up-to-amount-moved", "booked-outside-distribution", fmt.Sprintf("tx %s changed the booked claims", tx.Op))
		return
	}
	m.prev = cur
}

func (m *c17Monitor) AfterEndBlock(r *Run, ctx sdk.Context, _ abci.ResponseEndBlock) {
	cur := m.snap(r, ctx)
	if !cur.supply.Equal(m.prev.supply) {
		r.Violate(m.Name(), "supply-changes-only-by-epoch-reward", "end-block", fmt.Sprintf("EndBlock changed the supply from %s to %s", m.prev.supply, cur.supply))
		return
	}
	m.claimsWithinBalance(r, cur, "end-block")
	m.prev = cur
}

func init() {
	Register(&PropSpec{
		ID: "C17", Level: "exploration",
		Rule: "C01 workload (every cosmos and EVM transaction pays fees at random gas prices) with validator sets of 1-5, commission rates {0, 1%, 50%, 100%}, community tax {0, 2%, 50%, 100%}, epoch reward {0, 1, 1e18, 1.2e20}, mint and distribution identifiers equal or different, several stakers per operator, downtime (validators leaving the set; epochs with zero fees), multi-epoch time jumps; after every BeginBlock/tx/EndBlock: supply changes only by the epoch reward at a mint-epoch end; at a distribution-epoch end the whole fee-collector balance moves to the distribution account and delta(community pool + commissions + staker rewards) equals it; every validator that is allocated something gets F x (1 - tax) x power / total power (powers of the set stored before the block, exact rationals, tolerance of a few 1e-18 truncations) and books portion x commission rate as commission; booked claims never exceed the distribution account; non-trivial = >= 2 distributions of a non-zero amount and >= 1 mint",
		Assumptions: append([]string{"an epoch with ZERO total voting power is not produced: it means an empty validator set, which the consensus engine does not survive (the stub keeps operator 0 in the set)"}, ledgerAssumptions...),
		QuickRuns:   500, ThoroughRuns: 8000,
		GenConfig: func(p *PRNG, tier string) Config {
			c := SwarmConfig(p, SwarmOpts{EpochSecs: []int64{15, 20, 30}})
			c.HugeAmounts = false
			return c
		},
		GenPlan: ledgerPlan(LedgerGenOpts{DowntimeBursts: true, EpochJumps: true, Restarts: true,
			W: map[string]int{"dep": 8, "wd": 2, "del": 10, "und": 6, "assoc": 3, "dissoc": 1, "ndel": 3, "nund": 2, "optin": 3, "optout": 2, "setkey": 1, "unjail": 1, "send": 6, "mparams": 0}}),
		Monitors: func() []Monitor { return []Monitor{&c17Monitor{}} },
		NonTrivial: func(r *Run) bool {
			m := r.Mons[0].(*c17Monitor)
			return m.NonZero >= 2 && m.Mints >= 1
		},
	})
}
