package sim

import (
	"bytes"
	"crypto/sha256"
	"encoding/hex"
	"fmt"
	"os"
	"sort"

	sdk "github.com/cosmos/cosmos-sdk/types"
)

// RestakingStores are the KV stores of the restaking modules.
var RestakingStores = []string{"assets", "delegation", "operator", "dogfood", "avs", "oracle", "reward", "exoslash"}

// StoreDump is a canonical (sorted) dump of KV stores: store -> key(hex) -> value(hex).
type StoreDump map[string]map[string]string

// DumpStores reads whole KV stores from a context.
func (r *Run) DumpStores(ctx sdk.Context, names []string) StoreDump {
	d := StoreDump{}
	for _, n := range names {
		k := r.Node.App.GetKey(n)
		if k == nil {
			continue
		}
		m := map[string]string{}
		it := ctx.KVStore(k).Iterator(nil, nil)
		for ; it.Valid(); it.Next() {
			m[hex.EncodeToString(it.Key())] = hex.EncodeToString(it.Value())
		}
		it.Close()
		d[n] = m
	}
	return d
}

func (d StoreDump) Hash() string {
	h := sha256.New()
	names := make([]string, 0, len(d))
	for n := range d {
		names = append(names, n)
	}
	sort.Strings(names)
	for _, n := range names {
		keys := make([]string, 0, len(d[n]))
		for k := range d[n] {
			keys = append(keys, k)
		}
		sort.Strings(keys)
		fmt.Fprintf(h, "[%s]", n)
		for _, k := range keys {
			fmt.Fprintf(h, "%s=%s;", k, d[n][k])
		}
	}
	return hex.EncodeToString(h.Sum(nil)[:12])
}

// DiffEntry describes one differing key.
type DiffEntry struct {
	Store, Key, Before, After string
}

// Diff returns the differing keys (sorted), ignoring keys for which ignore returns true.
func (d StoreDump) Diff(o StoreDump, ignore func(store string, key []byte) bool) []DiffEntry {
	var out []DiffEntry
	names := map[string]int{}
	for n := range d {
		names[n] = 1
	}
	for n := range o {
		names[n] = 1
	}
	for _, n := range sortedKeys(names) {
		keys := map[string]int{}
		for k := range d[n] {
			keys[k] = 1
		}
		for k := range o[n] {
			keys[k] = 1
		}
		for _, k := range sortedKeys(keys) {
			if d[n][k] != o[n][k] {
				kb, _ := hex.DecodeString(k)
				if ignore != nil && ignore(n, kb) {
					continue
				}
				out = append(out, DiffEntry{n, k, d[n][k], o[n][k]})
			}
		}
	}
	return out
}

// PrefixClass summarises the changed keys as store/prefix-byte classes (for discriminators).
func PrefixClass(diff []DiffEntry) string {
	seen := map[string]int{}
	for _, e := range diff {
		p := "??"
		if len(e.Key) >= 2 {
			p = e.Key[:2]
		}
		seen[e.Store+":"+p] = 1
	}
	var b bytes.Buffer
	for i, k := range sortedKeys(seen) {
		if i > 0 {
			b.WriteByte(',')
		}
		b.WriteString(k)
	}
	return b.String()
}

func fmtDiff(diff []DiffEntry, max int) string {
	var b bytes.Buffer
	for i, e := range diff {
		if i >= max {
			fmt.Fprintf(&b, "... %d more", len(diff)-max)
			break
		}
		kb, _ := hex.DecodeString(e.Key)
		n := 80
		if os.Getenv("EXOSIM_FULL_DIFF") != "" {
			n = 4000
		}
		fmt.Fprintf(&b, "[%s] %q: %s -> %s\n", e.Store, printable(kb), firstN(e.Before, n), firstN(e.After, n))
	}
	return b.String()
}

func printable(b []byte) string {
	out := make([]byte, len(b))
	for i, c := range b {
		if c < 32 || c > 126 {
			out[i] = '.'
		} else {
			out[i] = c
		}
	}
	return string(out)
}
