package sim

import (
	"fmt"
	"math/big"
	"os"
)

// ---------------------------------------------------------------------------
// C14 — oracle restart equivalence; C08 — state machine determinism
// ---------------------------------------------------------------------------

type replicaStats struct {
	BaseMonitor
	Replicas    int
	Restarts    int
	OracleTxOK  int
	Finalized   int
	Heights     int
}

func (m *replicaStats) Name() string { return "replicas" }

func divergenceDisc(d *Divergence) string { return d.What }

// c14Exec runs the plan once without any restart (the node that never stops) and then
// re-executes the recorded blocks on fresh nodes that are stopped and restarted from their
// database: after every block, and after single chosen heights.
func c14Exec(r *Run) {
	st := r.Mons[0].(*replicaStats)
	for i := range r.Plan.Blocks {
		r.Plan.Blocks[i].Restart = false
	}
	r.Execute()
	if r.Viol != nil || r.Stats.Aborted != "" {
		return
	}
	for _, t := range r.Results {
		if t.Oracle != nil && t.OK {
			st.OracleTxOK++
		}
	}
	nb := int64(len(r.Chain.Blocks))
	st.Heights = int(nb)
	r.phase = "Replica"
	check := func(o ReplicaOpts, label string) bool {
		st.Replicas++
		d, p := r.RunReplica(o)
		if p != nil {
			r.Violate("restart-equivalence", "restarted-node-does-not-panic", PanicDisc(p), fmt.Sprintf("%s: %v\n%s", label, p.Value, trimStack(p.Stack)))
			return false
		}
		if d != nil {
			r.Violate("restart-equivalence", "restarted-node-equals-continuous-node", divergenceDisc(d), fmt.Sprintf("%s: first divergence from the node that never stopped: %s", label, d.Detail))
			return false
		}
		return true
	}
	// (a) restart after every committed block
	st.Restarts += int(nb)
	r.Fault("clean_restart_every_block")
	if !check(ReplicaOpts{RestartAll: true, Name: "restart-all"}, "replica restarted after every block") {
		return
	}
	// (b) single restart points
	p := NewPRNG(Mix(r.Seed, 0xC14))
	var heights []int64
	if r.Tier == "thorough" {
		for h := int64(1); h < nb; h++ {
			heights = append(heights, h)
		}
	} else {
		for i := 0; i < 4 && nb > 1; i++ {
			heights = append(heights, 1+p.Int63n(nb-1))
		}
	}
	for _, h := range heights {
		st.Restarts++
		r.Fault("clean_restart_single_height")
		if !check(ReplicaOpts{RestartAfter: map[int64]bool{h: true}, Name: fmt.Sprintf("restart@%d", h)}, fmt.Sprintf("replica restarted once after height %d", h)) {
			return
		}
	}
	// (d) crash inside a block (after BeginBlock, between two transactions, after EndBlock):
	// nothing of the block is durable, the node restarts and executes the block again
	if nb > 2 {
		crashes := map[int64]int{}
		ncr := 3
		if r.Tier == "thorough" {
			ncr = 8
		}
		for i := 0; i < ncr; i++ {
			h := 2 + p.Int63n(nb-1)
			ntx := len(r.Chain.Blocks[h-1].Txs)
			crashes[h] = p.Intn(ntx+2) - 1
		}
		st.Restarts += len(crashes)
		r.Fault("crash_inside_block")
		if !check(ReplicaOpts{CrashAt: crashes, Name: "crash-mid-block"}, fmt.Sprintf("replica crashed inside blocks %v (after that many transactions) and restarted", crashes)) {
			return
		}
	}
	// (c) several restarts in one history
	if nb > 3 {
		hs := map[int64]bool{}
		for i := 0; i < 3; i++ {
			hs[1+p.Int63n(nb-1)] = true
		}
		st.Restarts += len(hs)
		r.Fault("clean_restart_multiple")
		check(ReplicaOpts{RestartAfter: hs, Name: "restart-multi"}, fmt.Sprintf("replica restarted after heights %v", hs))
	}
}

// c08Exec: the same blocks executed by independent application instances (fresh map
// iteration orders each time), with and without restarts and CheckTx noise.
func c08Exec(r *Run) {
	st := r.Mons[0].(*replicaStats)
	r.Execute()
	if r.Viol != nil || r.Stats.Aborted != "" {
		return
	}
	nb := int64(len(r.Chain.Blocks))
	st.Heights = int(nb)
	r.phase = "Replica"
	p := NewPRNG(Mix(r.Seed, 0xC08))
	n := 2
	if r.Tier == "thorough" {
		n = 5
	}
	std := n
	if r.NoKnown {
		// replay / minimisation: Go's per-range map iteration order is the one schedule source
		// the PRNG cannot dictate, so a replay samples it with additional plain replicas (a
		// two-way order dependence is missed by all of them with probability 2^-12)
		n += 12
	}
	for i := 0; i < n; i++ {
		o := ReplicaOpts{Name: fmt.Sprintf("replica%d", i), CheckTxNoise: i%2 == 1 && i < std}
		if i >= 1 && i < std && nb > 2 {
			o.RestartAfter = map[int64]bool{1 + p.Int63n(nb-1): true, 1 + p.Int63n(nb-1): true}
			st.Restarts += 2
			r.Fault("replica_restart")
		}
		if i == std-1 && i >= 1 && nb > 2 {
			// the last standard replica also crashes inside two blocks
			o.CrashAt = map[int64]int{}
			for j := 0; j < 2; j++ {
				h := 2 + p.Int63n(nb-1)
				o.CrashAt[h] = p.Intn(len(r.Chain.Blocks[h-1].Txs)+2) - 1
			}
			r.Fault("replica_crash_inside_block")
		}
		switch os.Getenv("EXOSIM_C08_MODE") {
		case "restart":
			o.CheckTxNoise = false
		case "checktx":
			o.RestartAfter = nil
		case "plain":
			o.CheckTxNoise, o.RestartAfter = false, nil
		}
		if o.CheckTxNoise {
			r.Fault("replica_checktx_noise")
		}
		st.Replicas++
		d, perr := r.RunReplica(o)
		if perr != nil {
			r.Violate("determinism", "replica-does-not-panic-where-primary-did-not", PanicDisc(perr), fmt.Sprintf("%s: %v\n%s", o.Name, perr.Value, trimStack(perr.Stack)))
			return
		}
		if d != nil {
			r.Violate("determinism", "same-blocks-same-results", divergenceDisc(d), fmt.Sprintf("%s (restarts %v, checktx noise %v): %s", o.Name, o.RestartAfter, o.CheckTxNoise, d.Detail))
			return
		}
	}
}

func c08Plan(p *PRNG, cfg Config, tier string) Plan {
	o := LedgerGenOpts{DowntimeBursts: p.Chance(1, 2), Evidence: p.Chance(1, 2), EpochJumps: p.Chance(1, 2), Replays: p.Chance(1, 2), Unauthorized: true, NonceCollisions: true, MultiOperatorMsgs: true,
		W: map[string]int{"dep": 8, "wd": 3, "del": 9, "und": 8, "assoc": 2, "dissoc": 1, "ndel": 3, "nund": 3, "optin": 3, "optout": 2, "setkey": 3, "unjail": 1, "send": 2, "dfparams": 1}}
	if tier == "thorough" {
		o.MinBlocks, o.MaxBlocks = 40, 120
	}
	plan := GenLedgerPlan(p, cfg, o)
	if p.Chance(1, 3) {
		// AVS-paced history: the AVS epoch ends every 1-4 blocks, several task groups end together
		ao := AVSGenOpts{}
		if tier == "thorough" {
			ao.MinBlocks, ao.MaxBlocks = 40, 120
		}
		plan = GenAVSPlan(p, cfg, ao)
	}
	// oracle traffic from several validators on several feeders
	op := GenOraclePlan(NewPRNG(p.Uint64()), cfg, OracleGenOpts{MinBlocks: len(plan.Blocks), MaxBlocks: len(plan.Blocks), Hostile: p.Chance(1, 2)})
	for i := range plan.Blocks {
		if i < len(op.Blocks) {
			plan.Blocks[i].Ops = append(plan.Blocks[i].Ops, op.Blocks[i].Ops...)
		}
	}
	if f, ok := extraHostile["avs"]; ok {
		plan = f(p, cfg, plan)
	}
	plan = tiePattern(p, cfg, plan)
	return plan
}

// tiePattern makes two stakers hold exactly the same USD value with one operator through two
// DIFFERENT assets of the chain's own AVS, and then keeps fees flowing: sorts with ties and
// map-ordered collections only show an order dependence when at least two items tie.
func tiePattern(p *PRNG, cfg Config, plan Plan) Plan {
	if cfg.NStakers < 2 || len(plan.Blocks) < 4 || !p.Chance(2, 3) {
		return plan
	}
	var df []int
	for i, a := range cfg.Assets {
		if (a.InDogfood || i == 0) && !a.NST {
			df = append(df, i)
		}
	}
	if len(df) < 2 {
		return plan
	}
	i, j := df[0], df[1+p.Intn(len(df)-1)]
	pi, ok1 := new(big.Int).SetString(cfg.Assets[i].Price, 10)
	pj, ok2 := new(big.Int).SetString(cfg.Assets[j].Price, 10)
	if !ok1 || !ok2 || pi.Sign() <= 0 || pj.Sign() <= 0 {
		return plan
	}
	// value V = pi*pj*k USD: amount_i = pj*k*10^(dec_i+pdec_i), amount_j = pi*k*10^(dec_j+pdec_j)
	k := big.NewInt(int64(p.Range(1, 9)))
	pow := func(a AssetCfg) *big.Int {
		return new(big.Int).Exp(big.NewInt(10), big.NewInt(int64(a.Decimals)+int64(a.PriceDec)), nil)
	}
	ai := new(big.Int).Mul(new(big.Int).Mul(pj, k), pow(cfg.Assets[i]))
	aj := new(big.Int).Mul(new(big.Int).Mul(pi, k), pow(cfg.Assets[j]))
	if ai.BitLen() > 90 || aj.BitLen() > 90 {
		return plan
	}
	o := p.Intn(cfg.NVals)
	s1, s2 := cfg.NOps, cfg.NOps+1
	b := 1 + p.Intn(2)
	plan.Blocks[b].Ops = append(plan.Blocks[b].Ops,
		Op{K: "dep", A: s1, B: i, Amt: "=" + ai.String()}, Op{K: "del", A: s1, B: i, C: o, Amt: "=" + ai.String(), N: 900001},
		Op{K: "dep", A: s2, B: j, Amt: "=" + aj.String()}, Op{K: "del", A: s2, B: j, C: o, Amt: "=" + aj.String(), N: 900002})
	return plan
}

func init() {
	Register(&PropSpec{
		ID: "C14", Level: "fault_enumeration",
		Rule: "case = C12 oracle history (validator-set changes at epoch ends, several feeders at different phases, finalised / failed / force-sealed rounds; in half of the histories token registrations and oracle parameter updates) executed once on a node that never stops; the recorded blocks are then re-executed on fresh nodes over their own database with the process-level oracle state cleared at every restart: one replica restarted after EVERY committed block, single-restart replicas (quick: 4 random heights; thorough: every height of the history), one replica with several restarts, and one replica that crashes INSIDE blocks (after BeginBlock, between two transactions, or after EndBlock before Commit; quick: 3 blocks, thorough: 8) so that the partial execution is lost and the block is executed again; app hash, every DeliverTx result (code, data, gas), validator updates and consensus-param updates must be identical at every later height; non-trivial = history with >= 5 accepted submissions, >= 20 blocks and >= 6 restart points",
		Assumptions: []string{"a clean stop after a committed block loses exactly the process memory; the database (MemDB behind the dbm.DB seam) keeps everything committed", "replicas are executed one after another in one OS process; the oracle's package-level variables are reset to the fresh-process state at each (re)start (verif hook VerifResetOnce + exported Reset* functions)"},
		QuickRuns:   160, ThoroughRuns: 1500,
		GenConfig: oracleConfig,
		GenPlan: func(p *PRNG, cfg Config, tier string) Plan {
			o := OracleGenOpts{ValsetChanges: p.Chance(2, 3), MinBlocks: 25, MaxBlocks: 60}
			plan := GenOraclePlan(p, cfg, o)
			if p.Chance(1, 2) {
				// oracle parameter changes inside the history (token registrations add tokens and
				// feeders, parameter updates change the price-size limit): restarts right after them
				for i := range plan.Blocks {
					if p.Chance(1, 6) {
						plan.Blocks[i].Ops = append(plan.Blocks[i].Ops, Op{K: "regtoken", A: p.Intn(4), D: p.Intn(3), E: []int{6, 8, 18}[p.Intn(3)], S: []string{"", "NEWX,chain101,18,4", "NEWY,chain101,8,1"}[p.Intn(3)]})
					}
					if p.Chance(1, 10) {
						plan.Blocks[i].Ops = append(plan.Blocks[i].Ops, Op{K: "mparams", A: p.Intn(3), D: 1, N: int64(p.Intn(4))})
					}
				}
			}
			return plan
		},
		Monitors: func() []Monitor { return []Monitor{&replicaStats{}} },
		Exec:     c14Exec,
		NonTrivial: func(r *Run) bool {
			m := r.Mons[0].(*replicaStats)
			return m.OracleTxOK >= 5 && m.Heights >= 20 && m.Restarts >= 6
		},
	})
	Register(&PropSpec{
		ID: "C08", Level: "exploration",
		Rule: "case = the richest transaction mix (all ledger operations, operator lifecycle, native delegation, parameter updates, replays, oracle submissions from several validators on several feeders, downtime slashing, evidence, epoch ends); the recorded block sequence is re-executed by 2 (quick) / 5 (thorough) independent application instances in the same process (every execution draws fresh Go map iteration orders), some with restarts, CheckTx noise between blocks and crashes inside blocks (partial execution lost, block executed again); app hash, DeliverTx code/data/gas, validator updates and consensus-param updates must be byte-identical at every height; non-trivial = >= 20 blocks, >= 20 successful txs and >= 2 replicas compared",
		Assumptions: []string{"Go randomises map iteration per range statement, so in-process replicas sample iteration schedules; independent OS processes are exercised by the determinism self-test", "the harness itself is deterministic (selftest)"},
		QuickRuns:   200, ThoroughRuns: 3000,
		GenConfig: func(p *PRNG, tier string) Config {
			c := SwarmConfig(p, SwarmOpts{MinOps: 2, MaxOps: 6})
			c.HugeAmounts = false
			return c
		},
		GenPlan:  c08Plan,
		Monitors: func() []Monitor { return []Monitor{&replicaStats{}} },
		Exec:     c08Exec,
		NonTrivial: func(r *Run) bool {
			m := r.Mons[0].(*replicaStats)
			return m.Heights >= 20 && r.Stats.TxOK >= 20 && m.Replicas >= 2
		},
	})
}
