package sim

import (
	"fmt"
	"strings"

	sdk "github.com/cosmos/cosmos-sdk/types"

	oraclekeeper "github.com/ExocoreNetwork/exocore/x/oracle/keeper"
)

// C09 — a reported failure leaves no trace; C10 — privileged entry points.
type c09Monitor struct {
	BaseMonitor
	pre     StoreDump
	preMem  string
	Failed  map[string]int // entry point -> failures checked
	Unauth  map[string]int // entry point -> unauthorised attempts checked
	onlyUnauthorized bool
}

func (m *c09Monitor) Name() string {
	if m.onlyUnauthorized {
		return "authorization"
	}
	return "atomicity"
}

func (m *c09Monitor) BeforeTx(r *Run, ctx sdk.Context, tx *BuiltTx) {
	m.pre = r.DumpStores(ctx, RestakingStores)
	m.preMem = oraclekeeper.VerifDumpDeliver()
	if m.Failed == nil {
		m.Failed, m.Unauth = map[string]int{}, map[string]int{}
	}
}

// entryPoint names the entry point of a transaction for coverage and discriminators.
func entryPoint(tx *TxResult) string {
	if tx.Method != "" {
		return tx.Method
	}
	return tx.Op.K
}

// isUnauthorized: the operation was sent by somebody who is not the rightful caller.
func isUnauthorized(tx *TxResult) bool {
	if tx.Note == "replay" {
		return false
	}
	switch tx.Op.K {
	case "dep", "wd", "del", "und", "assoc", "dissoc", "regchain", "regtoken", "updtoken":
		// a direct call by a non-gateway account, or the gateway contract reaching the precompile in a
		// read-only frame / by DELEGATECALL (the caller the precompile sees is then the ordinary account)
		return tx.Op.M == 1 || tx.CallMode == "static" || tx.CallMode == "delegate"
	case "price":
		return tx.Oracle != nil && (tx.Oracle.SigMode != SigValid || !tx.Oracle.IsValidator)
	case "price2":
		return true // the second message is attributed to a validator that did not sign
	case "mparams":
		return tx.Authorized != nil && !*tx.Authorized
	case "forge":
		return true
	case "avsreg", "avsdereg", "avstask":
		return tx.Op.M == 1 // the sender argument is not a listed owner
	case "avsupd":
		return tx.Op.M == 3 || tx.Op.M == 4
	case "avsres":
		return tx.Op.E == 5 // signed by another account than the operator it is attributed to
	case "avsopt", "blsreg":
		// operator opt-in/out and key registration through the AVS precompile name the operator in an
		// argument: they may take effect only for the signer of the transaction
		return tx.Operator != nil && !tx.Sender.Equals(tx.Operator)
	}
	return false
}

func (m *c09Monitor) AfterTx(r *Run, ctx sdk.Context, tx *TxResult) {
	if m.pre == nil {
		return
	}
	ep := entryPoint(tx)
	unauth := isUnauthorized(tx)
	if unauth {
		m.Unauth[ep]++
		if tx.OK {
			report := r.Violate
			if tx.Op.K == "avsopt" || tx.Op.K == "blsreg" {
				report = r.violateKeepGoing // a per-call judgement; a listed finding must not mask the rest of the run
			}
			if report(m.Name(), "unauthorized-caller-is-rejected", ep, fmt.Sprintf("%s by an unauthorised caller succeeded: %s", ep, tx.Op)) {
				return
			}
			return
		}
	} else if m.onlyUnauthorized {
		return
	}
	if tx.OK {
		return
	}
	m.Failed[ep]++
	r.State("failed:" + ep)
	post := r.DumpStores(ctx, RestakingStores)
	diff := m.pre.Diff(post, func(store string, key []byte) bool {
		// the oracle nonce of the submitting validator may advance (admitted but not counted)
		return store == "oracle" && tx.Oracle != nil && !unauth && strings.Contains(string(key), tx.Oracle.Validator)
	})
	inv, disc := "reported-failure-leaves-module-stores-unchanged", ep+"|"+errClass(tx)+"|"+PrefixClass(diff)
	if unauth {
		inv = "unauthorized-call-changes-nothing"
		disc = ep + "|" + PrefixClass(diff)
	}
	if tx.CallMode == "nested-revert" {
		// one class whatever the entry point: the defect is in how precompiles reach the stores
		inv, disc = "effects-of-a-reverted-inner-frame-are-rolled-back", "stores"
	}
	report := r.Violate
	if tx.CallMode == "nested-revert" {
		report = r.violateKeepGoing // per-transaction comparison: a listed finding does not mask later ones
	}
	if len(diff) > 0 {
		report(m.Name(), inv, disc, fmt.Sprintf("%s reported failure (code %d flag %v: %s) but changed the module stores:\n%s", tx.Op, tx.Resp.Code, flagStr(tx.Flag), firstN(errClass(tx), 100), fmtDiff(diff, 8)))
		return
	}
	ignore := "  filter nonces"
	if unauth {
		ignore = ""
	}
	if d := lineDiff(m.preMem, oraclekeeper.VerifDumpDeliver(), ignore); d != "" {
		memDisc := ep + "|" + errClass(tx) + "|memory"
		if tx.Op.K == "price3" {
			memDisc = "first-message-of-failed-oracle-tx|memory"
			report = r.violateKeepGoing
		}
		if tx.CallMode == "nested-revert" {
			memDisc = "oracle-memory"
		}
		report(m.Name(), strings.Replace(inv, "module-stores", "in-memory-oracle-state", 1), memDisc, fmt.Sprintf("%s reported failure (code %d: %s) but changed the oracle's in-memory state:\n%s", tx.Op, tx.Resp.Code, firstN(errClass(tx), 100), firstN(d, 1200)))
	}
}

func flagStr(f *bool) string {
	if f == nil {
		return "-"
	}
	return fmt.Sprint(*f)
}

func c09Plan(unauthorizedBias bool) func(p *PRNG, cfg Config, tier string) Plan {
	return func(p *PRNG, cfg Config, tier string) Plan {
		o := LedgerGenOpts{DowntimeBursts: p.Chance(1, 2), Evidence: p.Chance(1, 3), EpochJumps: p.Chance(1, 2), Replays: p.Chance(1, 2), Unauthorized: true, NonceCollisions: true, MultiOperatorMsgs: true, BigAmounts: p.Chance(1, 3),
			W: map[string]int{"dep": 8, "wd": 6, "del": 9, "und": 9, "assoc": 4, "dissoc": 3, "ndel": 4, "nund": 4, "optin": 4, "optout": 3, "setkey": 4, "unjail": 2, "regop": 2, "dfparams": 1}}
		if tier == "thorough" {
			o.MinBlocks, o.MaxBlocks = 40, 120
		}
		plan := GenLedgerPlan(p, cfg, o)
		op := GenOraclePlan(NewPRNG(p.Uint64()), cfg, OracleGenOpts{MinBlocks: len(plan.Blocks), MaxBlocks: len(plan.Blocks), Hostile: true})
		for i := range plan.Blocks {
			b := &plan.Blocks[i]
			if i < len(op.Blocks) && p.Chance(1, 2) {
				b.Ops = append(b.Ops, op.Blocks[i].Ops...)
			}
			if p.Chance(1, 3) {
				x := registryOp(p)
				b.Ops = append(b.Ops, x)
			}
			for j := range b.Ops {
				if o := &b.Ops[j]; o.K == "price" && o.M == 0 && o.C2 == 0 && o.E == 0 && o.Amt2 == "" && o.N == 0 && p.Chance(1, 10) {
					// the report travels in a two-message transaction whose second message is refused
					o.K = "price3"
				}
				if unauthorizedBias && p.Chance(1, 4) {
					switch b.Ops[j].K {
					case "dep", "wd", "del", "und", "assoc", "dissoc", "regchain", "regtoken", "updtoken":
						b.Ops[j].M = 1
					}
				}
			}
			if f, ok := extraHostile["params"]; ok && p.Chance(1, 4) {
				*b = f(p, cfg, Plan{Blocks: []Block{*b}}).Blocks[0]
			}
		}
		if f, ok := extraHostile["avs"]; ok {
			plan = f(p, cfg, plan)
		}
		if cfg.GatewayContract {
			// the gateway is a forwarder contract: user 2 deploys it with its first transaction; some
			// gateway calls are made through a forwarder frame that reverts after the precompile returned
			for i := range plan.Blocks {
				for j := range plan.Blocks[i].Ops {
					o := &plan.Blocks[i].Ops[j]
					switch o.K {
					case "dep", "wd", "del", "und", "assoc", "dissoc", "regchain", "regtoken", "updtoken":
						if o.M == 0 && p.Chance(1, 5) {
							o.M = 2
						} else if o.M == 0 && p.Chance(1, 8) {
							o.M = 3 + p.Intn(3) // STATICCALL / DELEGATECALL frame / nested reverting frame
						}
					}
				}
			}
			plan.Blocks[0].Ops = append([]Op{{K: "etx", A: 2, E: 4, N: 400000}, {K: "etx", A: 1, E: 4, N: 400000}}, plan.Blocks[0].Ops...)
		}
		return plan
	}
}

func init() {
	cfgGen := func(p *PRNG, tier string) Config {
		c := SwarmConfig(p, SwarmOpts{WithNST: true})
		c.HugeAmounts = false
		c.GatewayContract = p.Chance(1, 3)
		return c
	}
	Register(&PropSpec{
		ID: "C09", Level: "exploration",
		Rule: "every entry point reachable by transaction (assets/delegation precompile methods incl. client-chain and token registration, operator, delegation and oracle messages, parameter updates) is driven with satisfiable and unsatisfiable inputs (unknown asset/chain/operator, amount 0 / position+1 / 2^64, frozen or opting-out operator, duplicate registration, malformed oracle info, wrong nonce/base block/decimal/source, unauthorised callers, replays; in a third of the runs the gateway is a forwarder CONTRACT: a fifth of its calls are made through a frame that reverts after the precompile returned, an eighth through a STATICCALL frame, a DELEGATECALL frame or a NESTED frame (outer forwarder -> gateway forwarder that reverts after the precompile returned -> precompile, the outer frame returning normally); a tenth of the regular price reports travel in a two-message transaction of one validator whose second message is refused) in states reached by the C01 workload with slashing and epoch ends; for every call that REPORTS failure (tx code != 0, VM error, or precompile success flag false) the byte-level dump of the assets, delegation, operator, dogfood, avs, oracle, reward and slash stores and the oracle's in-memory dump before and after must be equal (the submitting validator's oracle nonce excepted); non-trivial = >= 10 failures checked across >= 5 distinct entry points",
		Assumptions: append([]string{"only failures that real inputs produce are checked (no error injection inside keepers)", "block-level items (one undelegation / one AVS / one slash failing inside Begin/EndBlock) are covered only through the C03/C04 monitors' 'others still processed' checks, not here"}, ledgerAssumptions...),
		QuickRuns:   500, ThoroughRuns: 8000,
		GenConfig: cfgGen, GenPlan: c09Plan(false),
		Monitors: func() []Monitor { return []Monitor{&c09Monitor{}} },
		NonTrivial: func(r *Run) bool {
			m := r.Mons[0].(*c09Monitor)
			n := 0
			for _, v := range m.Failed {
				n += v
			}
			return n >= 10 && len(m.Failed) >= 5
		},
	})
	Register(&PropSpec{
		ID: "C10", Level: "exploration",
		Rule: "entry point x caller identity: every gateway-only precompile method (deposit, withdraw, delegate, undelegate, associate, dissociate, client-chain and token registration/update) is called by the configured gateway and by another funded account with the same well-formed payload; price submissions by validators, former validators, outsiders and with garbage / foreign / missing signatures, without any signer info, or with another key's public key; operator messages signed by another account for the victim's address; parameter updates of dogfood, oracle, mint, fee-distribution and assets by a non-governance account on mainnet and testnet chain ids; issued at random points of C01/C12 histories so identities (validator set, gateway) are state-dependent; an unauthorised call must report rejection AND leave the restaking stores and the in-memory oracle state byte-identical; non-trivial = >= 8 unauthorised attempts across >= 4 entry points",
		Assumptions: append([]string{"in a third of the runs the configured gateway is a forwarder contract (CALL), so the same account is authorised through the contract and unauthorised when it calls the precompile directly; STATICCALL and DELEGATECALL frames of the gateway contract count as not-rightful calls (read-only frame; the precompile sees the ordinary account as caller); the operator-facing AVS precompile methods (registerOperatorToAVS, deregisterOperatorFromAVS, registerBLSPublicKey) are rightful only when the named operator signed the transaction", "AVS entry points are added with the C20 workload"}, ledgerAssumptions...),
		QuickRuns:   500, ThoroughRuns: 8000,
		GenConfig: func(p *PRNG, tier string) Config {
			c := cfgGen(p, tier)
			if p.Chance(1, 2) {
				c.ChainID = "exocore_233-1"
			} else {
				c.ChainID = "exocoretestnet_233-1"
			}
			return c
		},
		GenPlan:  c09Plan(true),
		Monitors: func() []Monitor { return []Monitor{&c09Monitor{onlyUnauthorized: true}} },
		NonTrivial: func(r *Run) bool {
			m := r.Mons[0].(*c09Monitor)
			n := 0
			for _, v := range m.Unauth {
				n += v
			}
			return n >= 8 && len(m.Unauth) >= 4
		},
	})
}
