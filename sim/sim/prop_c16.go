package sim

import (
	"fmt"
	"sort"

	abci "github.com/cometbft/cometbft/abci/types"
	sdk "github.com/cosmos/cosmos-sdk/types"
	"github.com/ethereum/go-ethereum/common/hexutil"
)

// C16 — epoch-scheduled unbonding queues.
//
// Model: an entry registered while dogfood epoch e is current, under unbonding parameter N at
// that moment, is released in the block whose BeginBlock closes epoch e+N.
type qEntry struct {
	kind    string // "optout" | "prune" | "hold"
	key     string // operator bech32 | cons address bytes | record key
	epoch   int64  // release epoch
	created int64
}

type c16Monitor struct {
	BaseMonitor
	entries   map[string]*qEntry // kind+"/"+key
	preLedger *Ledger
	preView   *regView
	Released  int
	ParamChanges int
	reg       c07Monitor // reuse the registry reader
}

func (m *c16Monitor) Name() string { return "unbonding-queues" }

func (m *c16Monitor) AfterInit(r *Run) { m.entries = map[string]*qEntry{} }

func (m *c16Monitor) BeforeTx(r *Run, ctx sdk.Context, tx *BuiltTx) {
	m.preLedger = r.Ledger(ctx)
	m.preView = m.reg.view(r, ctx)
}

func (m *c16Monitor) isStoredValidator(r *Run, ctx sdk.Context, addr []byte) bool {
	if len(addr) == 0 {
		return false
	}
	_, ok := r.Node.App.StakingKeeper.GetExocoreValidator(ctx, sdk.ConsAddress(addr))
	return ok
}

func (m *c16Monitor) AfterTx(r *Run, ctx sdk.Context, tx *TxResult) {
	app := r.Node.App
	k := tx.Op.K
	if tx.Note == "replay" {
		k = map[string]string{"OptIntoAVS": "optin", "OptOutOfAVS": "optout", "SetConsKey": "setkey", "undelegate": "und", "MsgUndelegation": "nund", "dogfood.MsgUpdateParams": "dfparams"}[tx.Method]
	}
	if !tx.OK {
		return
	}
	epoch := r.dogfoodEpoch(ctx)
	// the parameter in force when the entry was registered (read before the tx for param updates)
	n := int64(app.StakingKeeper.GetEpochsUntilUnbonded(ctx))
	oi := -1
	for i, o := range r.W.Ops {
		if o.Addr.Equals(tx.Operator) {
			oi = i
		}
	}
	switch k {
	case "dfparams":
		m.ParamChanges++
		r.Probe("c16_unbonding_param_changed")
	case "optout":
		if oi < 0 || m.preView == nil {
			return
		}
		cur := m.preView.cur[oi]
		// the operator is "in the active set" with its current key or, after a replacement in
		// this epoch, with its previous key
		if m.isStoredValidator(r, ctx, cur) || m.isStoredValidator(r, ctx, m.preView.prev[oi]) {
			m.entries["optout/"+tx.Operator.String()] = &qEntry{kind: "optout", key: tx.Operator.String(), epoch: epoch + n, created: epoch}
			// registration is observable
			if got := app.StakingKeeper.GetOperatorOptOutFinishEpoch(ctx, tx.Operator); got != epoch+n {
				r.Violate(m.Name(), "opt-out-registered-for-epoch-plus-unbonding", "finish-epoch", fmt.Sprintf("operator %s opted out in epoch %d with unbonding %d: finish epoch recorded as %d", tx.Operator, epoch, n, got))
			}
		} else if app.OperatorKeeper.IsOperatorRemovingKeyFromChainID(ctx, tx.Operator, r.W.ChainIDNoRev) {
			r.Violate(m.Name(), "nothing-left-behind", "removal-marker-without-queue-entry", fmt.Sprintf("operator %s opted out with a key that is not in the validator set; it is marked as removing its key but no completion is scheduled", tx.Operator))
		}
	case "setkey":
		if oi < 0 || m.preView == nil {
			return
		}
		old, had := m.preView.cur[oi]
		post := m.reg.view(r, ctx)
		if had && string(old) != string(post.cur[oi]) && m.isStoredValidator(r, ctx, old) {
			key := "prune/" + string(old)
			if _, dup := m.entries[key]; !dup {
				m.entries[key] = &qEntry{kind: "prune", key: string(old), epoch: epoch + n, created: epoch}
			}
		}
	case "und", "nund":
		if m.preLedger == nil || m.preView == nil {
			return
		}
		cur := r.Ledger(ctx)
		for _, rk := range cur.RecOrder {
			if _, old := m.preLedger.Records[rk]; old {
				continue
			}
			rec := cur.Records[rk]
			op, err := sdk.AccAddressFromBech32(rec.OperatorAddr)
			if err != nil {
				continue
			}
			ri := -1
			for i, o := range r.W.Ops {
				if o.Addr.Equals(op) {
					ri = i
				}
			}
			if ri < 0 {
				continue
			}
			hold := cur.Holds[rk]
			mat, hasMat := app.StakingKeeper.GetUndelegationMaturityEpoch(ctx, []byte(rk))
			var wantHold uint64
			var wantEpoch int64
			switch {
			case m.preView.removing[ri]:
				ended, num := r.dogfoodEpochEnded(ctx.BlockHeight())
				if e := m.entries["optout/"+op.String()]; e != nil && !(ended && num >= e.epoch) {
					wantHold, wantEpoch = 1, e.epoch
				} else {
					// opting out but (per model) nothing scheduled: matures with the opt-out, i.e. now
					wantHold = 0
				}
			case m.isStoredValidator(r, ctx, m.preView.cur[ri]) || m.isStoredValidator(r, ctx, m.preView.prev[ri]):
				wantHold, wantEpoch = 1, epoch+n
			default:
				wantHold = 0
			}
			if hold != wantHold {
				r.Violate(m.Name(), "hold-iff-operator-key-in-active-set", fmt.Sprintf("hold%d-want%d", hold, wantHold), fmt.Sprintf("undelegation record %s from operator %d (removing=%v, current key active=%v, previous key active=%v): hold count %d, model %d", rk, ri, m.preView.removing[ri], m.isStoredValidator(r, ctx, m.preView.cur[ri]), m.isStoredValidator(r, ctx, m.preView.prev[ri]), hold, wantHold))
				return
			}
			if wantHold == 0 {
				r.Probe("c16_undelegation_not_held")
				continue
			}
			if !hasMat || mat != wantEpoch {
				r.Violate(m.Name(), "hold-registered-for-epoch-plus-unbonding", "maturity-epoch", fmt.Sprintf("record %s: maturity epoch %d (present=%v), model %d (current epoch %d, unbonding %d, operator removing=%v)", rk, mat, hasMat, wantEpoch, epoch, n, m.preView.removing[ri]))
				return
			}
			m.entries["hold/"+rk] = &qEntry{kind: "hold", key: rk, epoch: wantEpoch, created: epoch}
		}
	}
}

// queues reads the three queues through the public getters into kind/key -> epoch.
func (m *c16Monitor) queues(r *Run, ctx sdk.Context) map[string]int64 {
	app := r.Node.App
	q := map[string]int64{}
	for _, e := range app.StakingKeeper.GetAllOptOutsToFinish(ctx) {
		for _, a := range e.OperatorAccAddrs {
			q["optout/"+a] = e.Epoch
		}
	}
	for _, e := range app.StakingKeeper.GetAllConsAddrsToPrune(ctx) {
		for _, a := range e.ConsAddrs {
			if ca, err := sdk.ConsAddressFromBech32(a); err == nil {
				q["prune/"+string(ca)] = e.Epoch
			} else {
				q["prune/?"+a] = e.Epoch
			}
		}
	}
	for _, e := range app.StakingKeeper.GetAllUndelegationsToMature(ctx) {
		for _, k := range e.UndelegationRecordKeys {
			if b, err := hexutil.Decode(k); err == nil {
				q["hold/"+string(b)] = e.Epoch
			} else {
				q["hold/?"+k] = e.Epoch
			}
		}
	}
	return q
}

func (m *c16Monitor) AfterEndBlock(r *Run, ctx sdk.Context, _ abci.ResponseEndBlock) {
	app := r.Node.App
	h := ctx.BlockHeight()
	ended, num := r.dogfoodEpochEnded(h)
	cur := r.Ledger(ctx)
	view := m.reg.view(r, ctx)
	q := m.queues(r, ctx)
	keys := make([]string, 0, len(m.entries))
	for k := range m.entries {
		keys = append(keys, k)
	}
	sort.Strings(keys)
	for _, k := range keys {
		e := m.entries[k]
		due := ended && num >= e.epoch
		released := false
		switch e.kind {
		case "optout":
			op, _ := sdk.AccAddressFromBech32(e.key)
			released = !app.OperatorKeeper.IsOperatorRemovingKeyFromChainID(ctx, op, r.W.ChainIDNoRev)
		case "prune":
			_, present := view.rev[e.key]
			// pruned unless the lookup was legitimately re-created for a current key
			released = !present
			if present {
				if i := view.rev[e.key]; string(view.cur[i]) == e.key {
					released = due // cannot distinguish; accept
				}
			}
		case "hold":
			if _, alive := cur.Records[e.key]; !alive {
				released = true
			} else {
				released = cur.Holds[e.key] == 0
			}
		}
		switch {
		case due && !released:
			r.Violate(m.Name(), "released-in-block-closing-epoch-plus-unbonding", e.kind+"-late", fmt.Sprintf("height %d closes epoch %d: %s entry %x registered in epoch %d for release at the end of epoch %d is still there", h, num, e.kind, e.key, e.created, e.epoch))
			return
		case !due && released:
			if e.kind == "hold" {
				if _, alive := cur.Records[e.key]; !alive {
					// record gone before the hold matured
					r.Violate(m.Name(), "released-in-block-closing-epoch-plus-unbonding", "hold-early", fmt.Sprintf("height %d: held undelegation %x (release epoch %d, current %d) disappeared", h, e.key, e.epoch, r.dogfoodEpoch(ctx)))
					return
				}
			}
			r.Violate(m.Name(), "released-in-block-closing-epoch-plus-unbonding", e.kind+"-early", fmt.Sprintf("height %d (epoch ended=%v num=%d): %s entry %x registered in epoch %d for release at the end of epoch %d is already released", h, ended, num, e.kind, e.key, e.created, e.epoch))
			return
		case due && released:
			m.Released++
			delete(m.entries, k)
			if _, still := q[k]; still {
				r.Violate(m.Name(), "nothing-left-behind", e.kind+"-queue-entry-left", fmt.Sprintf("height %d: %s entry %x was released but is still listed by the queue getter", h, e.kind, e.key))
				return
			}
		default:
			// waiting: the public getters must list it under its epoch
			if got, ok := q[k]; !ok || got != e.epoch {
				r.Violate(m.Name(), "queue-getters-list-waiting-entries", e.kind, fmt.Sprintf("height %d: waiting %s entry %x (release epoch %d) is listed by the getter as epoch %d (present=%v)", h, e.kind, e.key, e.epoch, got, ok))
				return
			}
		}
	}
	// nothing but the model's entries is queued, and nothing queued is overdue
	curEpoch := r.dogfoodEpoch(ctx)
	for _, k := range sortedKeysInt64(q) {
		if q[k] < curEpoch {
			r.Violate(m.Name(), "nothing-left-behind", "overdue-queue-entry", fmt.Sprintf("height %d: queue entry %x scheduled for epoch %d is still queued in epoch %d", h, k, q[k], curEpoch))
			return
		}
		if _, ok := m.entries[k]; !ok {
			r.Violate(m.Name(), "queue-getters-list-waiting-entries", "unexpected-entry", fmt.Sprintf("height %d: queue getter lists %x for epoch %d which the model does not know", h, k, q[k]))
			return
		}
	}
	// pending lists are consumed in the same block
	if n := len(app.StakingKeeper.GetPendingOptOuts(ctx).List) + len(app.StakingKeeper.GetPendingConsensusAddrs(ctx).List) + len(app.StakingKeeper.GetPendingUndelegations(ctx).List); n != 0 {
		r.Violate(m.Name(), "nothing-left-behind", "pending-list-not-cleared", fmt.Sprintf("height %d: %d entries left in the pending lists after EndBlock", h, n))
		return
	}
	// every hold belongs to a waiting entry
	for _, rk := range cur.RecOrder {
		if cur.Holds[rk] > 0 {
			if _, ok := m.entries["hold/"+rk]; !ok {
				r.Violate(m.Name(), "nothing-left-behind", "hold-without-queue-entry", fmt.Sprintf("height %d: record %s has hold count %d but no maturity is scheduled", h, rk, cur.Holds[rk]))
				return
			}
		}
	}
}

func sortedKeysInt64(m map[string]int64) []string {
	ks := make([]string, 0, len(m))
	for k := range m {
		ks = append(ks, k)
	}
	sort.Strings(ks)
	return ks
}

func (m *c16Monitor) Finish(r *Run) {
	if len(m.entries) != 0 {
		keys := make([]string, 0)
		for k := range m.entries {
			keys = append(keys, fmt.Sprintf("%s@%d", m.entries[k].kind, m.entries[k].epoch))
		}
		sort.Strings(keys)
		r.Violate(m.Name(), "queues-drain-after-faults-stop", "entries-left", fmt.Sprintf("after the fault-free epilogue %d entries are still waiting: %v", len(m.entries), keys))
	}
}

func init() {
	w := map[string]int{"dep": 6, "wd": 2, "del": 9, "und": 12, "assoc": 1, "dissoc": 1, "ndel": 4, "nund": 6, "optin": 6, "optout": 6, "setkey": 7, "unjail": 2, "dfparams": 2}
	Register(&PropSpec{
		ID: "C16", Level: "exploration",
		Rule: "C06 configuration; plans rich in undelegations, opt-outs and key replacements over many 15-30 s epochs, several entries per epoch, unbonding-epochs parameter changed by MsgUpdateParams (testnet chain ids), downtime and multi-epoch time jumps; queue model: an entry registered in epoch e under parameter N is released in the block whose BeginBlock closes epoch e+N, observed through IsOperatorRemovingKey / reverse lookup / hold count and through GetAllOptOutsToFinish, GetAllConsAddrsToPrune, GetAllUndelegationsToMature, pending lists; hold decision per the statement; fault-free epilogue of N+2 epochs must drain everything; non-trivial = >= 3 entries released AND >= 1 undelegation not held",
		Assumptions: append([]string{"the dogfood epoch identifier is never changed (the statement quantifies over the unbonding-epochs parameter only)"}, ledgerAssumptions...),
		QuickRuns:   700, ThoroughRuns: 12000,
		GenConfig: valsetConfig,
		GenPlan: func(p *PRNG, cfg Config, tier string) Plan {
			plan := ledgerPlan(LedgerGenOpts{DowntimeBursts: true, EpochJumps: true, Restarts: true, NonceCollisions: true, MultiOperatorMsgs: true, W: w})(p, cfg, tier)
			return Epilogue(plan, cfg, 4+2)
		},
		Monitors: func() []Monitor { return []Monitor{&c16Monitor{}} },
		NonTrivial: func(r *Run) bool {
			m := r.Mons[0].(*c16Monitor)
			return m.Released >= 3 && r.Stats.Probes["c16_undelegation_not_held"] > 0
		},
	})
}
