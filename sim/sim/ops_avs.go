package sim

import (
	"encoding/json"
	"fmt"
	"math/big"
	"strings"

	sdk "github.com/cosmos/cosmos-sdk/types"
	txtypes "github.com/cosmos/cosmos-sdk/types/tx"
	"github.com/ethereum/go-ethereum/common"
	"github.com/ethereum/go-ethereum/crypto"
	"github.com/prysmaticlabs/prysm/v4/crypto/bls/blst"
	blscommon "github.com/prysmaticlabs/prysm/v4/crypto/bls/common"

	avstypes "github.com/ExocoreNetwork/exocore/x/avs/types"
)

// AVS workload. The three funded user accounts act as AVS "contracts" (an externally owned
// account calling the AVS precompile is, for the precompile, the AVS / task contract:
// contract.CallerAddress), operators submit task results with cosmos messages.

const BLSKeyPool = 2

// AVSTx is what the monitors need to know about an AVS operation.
type AVSTx struct {
	Kind     string // avsreg avsupd avsdereg avsopt blsreg avstask avsres avschal optin optout
	AVS      string // AVS address as the call presents it
	TaskAddr string // task contract address as presented
	Operator string // bech32 operator address the operation is about
	From     string // message signer (avsres)
	TaskID   uint64
	Stage    string
	Sig      []byte
	Response []byte
	PubKey   []byte
	Out      bool // opt-out instead of opt-in
	NilInfo  bool
}

func (w *World) User(i int) Account {
	// indexes from 100 on name the OPERATOR accounts: an operator may register itself as an AVS and
	// then call the AVS precompile for itself (the only way an externally owned AVS can name an
	// operator that is also the signer of the transaction)
	if i >= 100 && len(w.Ops) > 0 {
		return w.Ops[(i-100)%len(w.Ops)].Account
	}
	n := len(w.Users)
	return w.Users[((i%n)+n)%n]
}

// BLSKey derives the k-th BLS key of operator i from the seed.
func (w *World) BLSKey(i, k int) blscommon.SecretKey {
	k = ((k % BLSKeyPool) + BLSKeyPool) % BLSKeyPool
	p := NewPRNG(MixStr(Mix(w.Cfg.Seed, uint64(i*16+k)), "bls"))
	for {
		b := p.Bytes(32)
		b[0] &= 0x3f // below the group order
		if sk, err := blst.SecretKeyFromBytes(b); err == nil {
			return sk
		}
	}
}

// avsRef resolves "avs:N" (checksummed address of user N, as the precompile records it) and
// "avsl:N" (the same address in lower case).
func (w *World) avsRef(s string) (string, bool) {
	var n int
	if _, err := fmt.Sscanf(s, "avs:%d", &n); err == nil {
		return w.User(n).Eth.String(), true
	}
	if _, err := fmt.Sscanf(s, "avsl:%d", &n); err == nil {
		return strings.ToLower(w.User(n).Eth.String()), true
	}
	return "", false
}

// latestTaskID returns the highest task id recorded for a task contract (0 if none).
func (r *Run) latestTaskID(ctx sdk.Context, taskAddr string) uint64 {
	var max uint64
	r.Node.App.AVSManagerKeeper.IterateTaskAVSInfo(ctx, func(_ int64, t avstypes.TaskInfo) bool {
		if strings.EqualFold(t.TaskContractAddress, taskAddr) && t.TaskId > max {
			max = t.TaskId
		}
		return false
	})
	return max
}

func (r *Run) resolveTaskID(ctx sdk.Context, taskAddr string, n int64) uint64 {
	if n >= 100 {
		return uint64(n - 100)
	}
	latest := int64(r.latestTaskID(ctx, taskAddr))
	id := latest + n // n <= 0: latest, latest-1, ...
	if n > 0 {
		id = latest + n // not yet existing ids
	}
	if id < 0 {
		id = 0
	}
	return uint64(id)
}

func avsEpochChoice(cfg Config, d int) string {
	switch ((d % 6) + 6) % 6 {
	case 0, 1:
		return cfg.DogfoodEpoch
	case 2:
		return "minute"
	case 3:
		return "hour"
	case 4:
		return "nosuchepoch"
	}
	return ""
}

func init() {
	regOrUpd := func(method string) func(r *Run, ctx sdk.Context, op Op) (*BuiltTx, error) {
		return func(r *Run, ctx sdk.Context, op Op) (*BuiltTx, error) {
			w := r.W
			u, t := w.User(op.A), w.User(op.C)
			bt := &BuiltTx{Op: op, Method: method}
			name := op.S
			if name == "" {
				name = avsName(op.A)
			}
			if name == "-" {
				name = ""
			}
			owners := []string{u.Addr.String()}
			switch op.M {
			case 1:
				owners = []string{w.User(op.A + 1).Addr.String()}
			case 2:
				owners = []string{u.Addr.String(), w.User(op.A + 1).Addr.String()}
			}
			var assets []string
			for i, id := range w.AssetIDs {
				if op.B&0x7f == 0 || op.B&(1<<uint(i)) != 0 {
					assets = append(assets, id)
				}
			}
			if op.B&0x80 != 0 {
				assets = append(assets, "0xdeaddeaddeaddeaddeaddeaddeaddeaddeaddead_0x65")
			}
			minSelf := []uint64{0, 0, 1, 50, 1000000, 1 << 63, 1<<64 - 1}[((op.E%7)+7)%7] // the last two do not fit an int64
			unb := uint64(7)
			if op.N != 0 {
				unb = uint64(op.N)
			}
			if op.N < 0 {
				unb = 0
			}
			sender := u.Eth
			if op.M == 3 {
				sender = w.Gateway.Eth // never a listed owner
			}
			if op.M == 4 && method == "updateAVS" {
				// a non-owner naming itself as the new owner
				sender = w.Gateway.Eth
				owners = []string{w.Gateway.Addr.String()}
			}
			data, err := ABI("avs").Pack(method, sender, name, uint64(1), t.Eth, w.User(op.A+1).Eth, w.User(op.A+2).Eth,
				owners, assets, unb, minSelf, avsEpochChoice(w.Cfg, op.D), []uint64{1, 1, 5, 5})
			if err != nil {
				return nil, err
			}
			bt.AVS = &AVSTx{Kind: op.K, AVS: u.Eth.String(), TaskAddr: t.Eth.String()}
			return bt, r.ethCall(ctx, u, AVSPrecompile, data, bt)
		}
	}
	// avsreg / avsupd: A avs user, C task-address user, D epoch identifier choice, E minimum self
	// delegation choice, B asset mask (0 all, 0x80 adds an unknown asset), N unbonding period,
	// M owner list variant (1: sender not in the new owner list, 2: two owners, 3: sender argument is not a listed owner), S name ("-" empty)
	extraBuilders["avsreg"] = regOrUpd("registerAVS")
	extraBuilders["avsupd"] = regOrUpd("updateAVS")
	// avsdereg: A avs user, S name ("" the registered name), M 1: caller argument is not an owner
	extraBuilders["avsdereg"] = func(r *Run, ctx sdk.Context, op Op) (*BuiltTx, error) {
		w := r.W
		u := w.User(op.A)
		bt := &BuiltTx{Op: op, Method: "deregisterAVS"}
		name := op.S
		if name == "" {
			name = avsName(op.A)
			if info, err := r.Node.App.AVSManagerKeeper.GetAVSInfo(ctx, u.Eth.String()); err == nil && info != nil && info.Info != nil {
				name = info.Info.Name
			}
		}
		caller := u.Eth
		if op.M == 1 {
			caller = w.Gateway.Eth // never a listed owner
		}
		data, err := ABI("avs").Pack(bt.Method, caller, name)
		if err != nil {
			return nil, err
		}
		bt.AVS = &AVSTx{Kind: op.K, AVS: u.Eth.String()}
		return bt, r.ethCall(ctx, u, AVSPrecompile, data, bt)
	}
	// avsopt: the AVS (user A) binds / unbinds (M=1) operator C (C >= NOps: not an operator)
	extraBuilders["avsopt"] = func(r *Run, ctx sdk.Context, op Op) (*BuiltTx, error) {
		w := r.W
		u := w.User(op.A)
		bt := &BuiltTx{Op: op, Method: "registerOperatorToAVS"}
		if op.M == 1 {
			bt.Method = "deregisterOperatorFromAVS"
		}
		var who Account
		if op.C >= 0 && op.C < len(w.Ops) {
			who = w.Ops[op.C].Account
		} else {
			who = w.User(op.C)
		}
		data, err := ABI("avs").Pack(bt.Method, who.Eth)
		if err != nil {
			return nil, err
		}
		bt.Operator = who.Addr
		bt.AVS = &AVSTx{Kind: op.K, AVS: u.Eth.String(), Operator: who.Addr.String(), Out: op.M == 1}
		return bt, r.ethCall(ctx, u, AVSPrecompile, data, bt)
	}
	// blsreg: operator C registers BLS key D (M=1: user A sends the call naming operator C). E: 1 signature by another key, 2 message hash of
	// 31 bytes, 3 garbage public key, 4 message hash of 40 bytes
	extraBuilders["blsreg"] = func(r *Run, ctx sdk.Context, op Op) (*BuiltTx, error) {
		w := r.W
		o := w.Op(op.C)
		bt := &BuiltTx{Op: op, Method: "registerBLSPublicKey", Operator: o.Addr}
		key := w.BLSKey(o.Idx, op.D)
		hash := crypto.Keccak256([]byte("bls registration of " + o.Addr.String()))
		signer := key
		if op.E == 1 {
			signer = w.BLSKey(o.Idx, op.D+1)
		}
		sig := signer.Sign(hash).Marshal()
		pub := key.PublicKey().Marshal()
		switch op.E {
		case 2:
			hash = hash[:31]
		case 3:
			pub = NewPRNG(uint64(op.D) + 77).Bytes(48)
		case 4:
			hash = append(hash, 1, 2, 3, 4, 5, 6, 7, 8)
		}
		data, err := ABI("avs").Pack(bt.Method, o.Eth, "bls-"+o.Name, pub, sig, hash)
		if err != nil {
			return nil, err
		}
		bt.AVS = &AVSTx{Kind: op.K, Operator: o.Addr.String(), PubKey: pub}
		from := o.Account
		if op.M == 1 {
			from = w.User(op.A) // somebody else registers a key in the operator's name
		}
		return bt, r.ethCall(ctx, from, AVSPrecompile, data, bt)
	}
	// avstask: the task contract (user A) creates a task. D response period, E statistical
	// period, N challenge period, M 1: sender argument is not an owner, S name ("-" empty)
	extraBuilders["avstask"] = func(r *Run, ctx sdk.Context, op Op) (*BuiltTx, error) {
		w := r.W
		u := w.User(op.A)
		bt := &BuiltTx{Op: op, Method: "createTask"}
		caller := u.Eth
		avs := r.Node.App.AVSManagerKeeper.GetAVSInfoByTaskAddress(ctx, u.Eth.String())
		if len(avs.AvsOwnerAddress) > 0 {
			if a, err := sdk.AccAddressFromBech32(avs.AvsOwnerAddress[0]); err == nil {
				caller = common.BytesToAddress(a)
			}
		}
		if op.M == 1 {
			caller = w.Gateway.Eth
		}
		name := op.S
		if name == "" {
			name = "task"
		}
		if name == "-" {
			name = ""
		}
		data, err := ABI("avs").Pack(bt.Method, caller, name, crypto.Keccak256([]byte(name)), uint64(op.D), uint64(op.N), uint64(60), uint64(op.E))
		if err != nil {
			return nil, err
		}
		bt.AVS = &AVSTx{Kind: op.K, TaskAddr: u.Eth.String(), AVS: avs.AvsAddress}
		return bt, r.ethCall(ctx, u, AVSPrecompile, data, bt)
	}
	// avsres: operator A submits a result for task N of task contract user B. M stage (1/2),
	// D the response's number, C BLS key index, E variant:
	// 1 response carries another task id, 2 signed with another key, 3 phase-one with response /
	// phase-two without, 4 no signature, 5 message signer is not the operator, 6 lower-case task
	// contract address, 7 malformed response, 8 no info at all, 9 signature field PRESENT BUT EMPTY
	// on the wire (bytes 0x22 0x00, which the generated marshaller never emits and the decoder turns
	// into a non-nil empty slice), 10 operator and signer spelled in UPPER-CASE bech32
	extraBuilders["avsres"] = func(r *Run, ctx sdk.Context, op Op) (*BuiltTx, error) {
		w := r.W
		o := w.Op(op.A)
		t := w.User(op.B)
		taskAddr := t.Eth.String()
		id := r.resolveTaskID(ctx, taskAddr, op.N)
		bt := &BuiltTx{Op: op, Method: "SubmitTaskResult", Operator: o.Addr}
		rid := id
		if op.E == 1 {
			rid = id + 1
		}
		resp, _ := json.Marshal(avstypes.TaskResponse{TaskID: rid, NumberSum: big.NewInt(int64(op.D))})
		if op.E == 7 {
			resp = []byte(`{"TaskID":`)
		}
		key := w.BLSKey(o.Idx, op.C)
		if op.E == 2 {
			key = w.BLSKey(o.Idx, op.C+1)
		}
		digest := crypto.Keccak256(resp)
		sig := key.Sign(digest).Marshal()
		stage := fmt.Sprint(op.M)
		info := &avstypes.TaskResultInfo{OperatorAddress: o.Addr.String(), TaskContractAddress: taskAddr, TaskId: id, Stage: stage, BlsSignature: sig}
		if (op.M == 2) != (op.E == 3) {
			info.TaskResponse = resp
		}
		switch op.E {
		case 4:
			info.BlsSignature = nil
		case 5:
			info.OperatorAddress = w.Op(op.A + 1).Addr.String()
		case 6:
			info.TaskContractAddress = strings.ToLower(taskAddr)
		case 9:
			info.BlsSignature = nil
		case 10:
			info.OperatorAddress = strings.ToUpper(o.Addr.String())
		}
		msg := &avstypes.SubmitTaskResultReq{FromAddress: info.OperatorAddress, Info: info}
		if op.E == 5 {
			msg.FromAddress = o.Addr.String()
		}
		if op.E == 9 {
			ib, err := info.Marshal()
			if err != nil {
				return nil, err
			}
			ib = append(ib, 0x22, 0x00) // field 4 (bls_signature), length 0
			raw := protoBytesField(nil, 1, []byte(msg.FromAddress))
			raw = protoBytesField(raw, 2, ib)
			r.txMutate = func(t *txtypes.Tx) { t.Body.Messages[0].Value = raw }
			info.BlsSignature = []byte{}
		}
		a := &AVSTx{Kind: op.K, TaskAddr: info.TaskContractAddress, Operator: info.OperatorAddress, From: msg.FromAddress, TaskID: id,
			Stage: stage, Sig: info.BlsSignature, Response: info.TaskResponse}
		if op.E == 8 {
			msg.Info = nil
			a.NilInfo = true
		}
		bt.AVS = a
		return bt, r.cosmosTx(ctx, o.Account, bt, msg)
	}
	// avschal: the task contract (user B) challenges operator A's result for task N.
	// E: 1 wrong task hash, 2 wrong response hash, 3 malformed operator address
	extraBuilders["avschal"] = func(r *Run, ctx sdk.Context, op Op) (*BuiltTx, error) {
		w := r.W
		o := w.Op(op.A)
		t := w.User(op.B)
		taskAddr := t.Eth.String()
		id := r.resolveTaskID(ctx, taskAddr, op.N)
		bt := &BuiltTx{Op: op, Method: "challenge", Operator: o.Addr}
		k := r.Node.App.AVSManagerKeeper
		taskHash := crypto.Keccak256([]byte("task"))
		if ti, err := k.GetTaskInfo(ctx, fmt.Sprint(id), taskAddr); err == nil && ti != nil {
			taskHash = ti.Hash
		}
		respHash := make([]byte, 32)
		if res, err := k.GetTaskResultInfo(ctx, o.Addr.String(), taskAddr, id); err == nil && res != nil {
			if tr, err := avstypes.UnmarshalTaskResponse(res.TaskResponse); err == nil {
				if packed, err := avstypes.Args.Pack(&tr); err == nil {
					respHash = crypto.Keccak256(packed)
				}
			}
		}
		opStr := o.Addr.String()
		switch op.E {
		case 1:
			taskHash = crypto.Keccak256([]byte("another task"))
		case 2:
			respHash = crypto.Keccak256([]byte("another response"))
		case 3:
			opStr = "exo1notanaddress"
		}
		data, err := ABI("avs").Pack(bt.Method, w.User(op.B+1+op.D).Eth, taskHash, id, respHash, opStr)
		if err != nil {
			return nil, err
		}
		bt.AVS = &AVSTx{Kind: op.K, TaskAddr: taskAddr, Operator: o.Addr.String(), TaskID: id}
		return bt, r.ethCall(ctx, t, AVSPrecompile, data, bt)
	}
}

// protoBytesField appends a length-delimited protobuf field.
func protoBytesField(b []byte, num int, v []byte) []byte {
	b = append(b, byte(num<<3|2))
	n := uint64(len(v))
	for n >= 0x80 {
		b = append(b, byte(n)|0x80)
		n >>= 7
	}
	b = append(b, byte(n))
	return append(b, v...)
}

func avsName(a int) string {
	if a >= 100 {
		return fmt.Sprintf("avs%d", a)
	}
	return fmt.Sprintf("avs%d", ((a%3)+3)%3)
}
