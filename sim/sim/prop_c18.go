package sim

import (
	"encoding/hex"
	"encoding/json"
	"fmt"
	"os"
	"reflect"
	"regexp"
	"sort"
	"strings"
	"time"

	dbm "github.com/cometbft/cometbft-db"
	abci "github.com/cometbft/cometbft/abci/types"
	tmproto "github.com/cometbft/cometbft/proto/tendermint/types"
	sdk "github.com/cosmos/cosmos-sdk/types"
	"github.com/cosmos/cosmos-sdk/types/module"

	exocoreapp "github.com/ExocoreNetwork/exocore/app"
	"github.com/ExocoreNetwork/exocore/x/oracle"
)

// C18 — genesis export and re-import reproduce the chain.
//
// Node A executes a history; after a committed block chosen by the plan ("export" fault point)
// its state is exported through the application's own export path. A keeps running to the end
// of the plan and records, per later height, the dump of the listed modules' stores. Then a
// fresh node B is initialised from the exported document (InitChain with the exported height and
// consensus params); its stores are compared byte by byte with A's at the export height, it is
// exported again, and the blocks A executed after the export are executed on B in lock step.

var C18Stores = []string{"assets", "delegation", "operator", "dogfood", "epochs", "oracle", "exomint", "feedistribution"}

type c18Monitor struct {
	BaseMonitor
	Exported   bool
	genesis    map[string]json.RawMessage
	consParams *tmproto.ConsensusParams
	height     int64 // initial height of the re-started chain
	exportTime time.Time
	atExport   StoreDump
	later      map[int64]StoreDump
	valsAtExp  map[string]int64
	// coverage
	PendingUndelegations int
	QueueEntries         int
	Continued            int
	KeysCompared         int
}

func (m *c18Monitor) Name() string { return "genesis" }

func dumpStoresOf(app *exocoreapp.ExocoreApp, ctx sdk.Context, names []string) StoreDump {
	d := StoreDump{}
	for _, n := range names {
		k := app.GetKey(n)
		if k == nil {
			continue
		}
		m := map[string]string{}
		it := ctx.KVStore(k).Iterator(nil, nil)
		for ; it.Valid(); it.Next() {
			if n == "dogfood" && len(it.Key()) > 0 && it.Key()[0] == 0x0c {
				// block-history cache (header and validator set of the last N heights, kept for
				// IBC self-validation): not part of the ledger the property is about and, as in
				// the SDK's own staking module, not part of the genesis document
				continue
			}
			if n == "delegation" && len(it.Key()) > 0 && it.Key()[0] == 0x06 && sdk.BigEndianToUint64(it.Value()) == 0 {
				// a hold count of zero is the same state as no hold count (the getter reads
				// a missing entry as zero; released holds leave a zero entry behind)
				continue
			}
			m[hex.EncodeToString(it.Key())] = hex.EncodeToString(it.Value())
		}
		it.Close()
		d[n] = m
	}
	return d
}

func (m *c18Monitor) AfterCommit(r *Run, ctx sdk.Context) {
	if m.Exported {
		m.later[r.Chain.Height] = dumpStoresOf(r.Node.App, ctx, C18Stores)
		return
	}
	if r.curBlock >= len(r.Plan.Blocks) || !r.Plan.Blocks[r.curBlock].Export {
		return
	}
	var exp struct {
		state  []byte
		height int64
		cp     *tmproto.ConsensusParams
		err    error
	}
	p := guard("Export", func() {
		e, err := r.Node.App.ExportAppStateAndValidators(false, nil, nil)
		exp.state, exp.height, exp.cp, exp.err = e.AppState, e.Height, e.ConsensusParams, err
	})
	if p != nil {
		r.Violate(m.Name(), "export-succeeds", PanicDisc(p), fmt.Sprintf("export after height %d panicked: %v\n%s", r.Chain.Height, p.Value, trimStack(p.Stack)))
		return
	}
	if exp.err != nil {
		r.Violate(m.Name(), "export-succeeds", "error", fmt.Sprintf("export after height %d failed: %v", r.Chain.Height, exp.err))
		return
	}
	if err := json.Unmarshal(exp.state, &m.genesis); err != nil {
		r.abort("harness: exported app state is not a JSON object: " + err.Error())
		return
	}
	m.Exported = true
	r.Fault("export_point")
	m.height, m.consParams, m.exportTime = exp.height, exp.cp, r.Chain.Time
	m.atExport = dumpStoresOf(r.Node.App, ctx, C18Stores)
	m.later = map[int64]StoreDump{}
	m.valsAtExp = map[string]int64{}
	if vs := r.Chain.ValSets[r.Chain.Height+2]; vs != nil {
		for _, v := range vs.Validators {
			m.valsAtExp[string(v.PubKey.Bytes())] = v.VotingPower
		}
	}
	// what is in flight at the export point
	l := r.Ledger(ctx)
	m.PendingUndelegations = len(l.Records)
	k := r.Node.App.StakingKeeper
	m.QueueEntries = len(k.GetAllOptOutsToFinish(ctx)) + len(k.GetAllConsAddrsToPrune(ctx)) + len(k.GetAllUndelegationsToMature(ctx))
	if m.PendingUndelegations > 0 {
		r.Probe("c18_export_with_pending_undelegations")
	}
	if m.QueueEntries > 0 {
		r.Probe("c18_export_with_dogfood_queue_entries")
	}
}

// moduleExports re-exports the listed modules from a context through the keepers' own export functions.
func moduleExports(app *exocoreapp.ExocoreApp, ctx sdk.Context) (out map[string]json.RawMessage, perr *PanicError) {
	out = map[string]json.RawMessage{}
	cdc := app.AppCodec()
	perr = guard("Export", func() {
		out["assets"] = cdc.MustMarshalJSON(app.AssetsKeeper.ExportGenesis(ctx))
		out["delegation"] = cdc.MustMarshalJSON(app.DelegationKeeper.ExportGenesis(ctx))
		out["operator"] = cdc.MustMarshalJSON(app.OperatorKeeper.ExportGenesis(ctx))
		out["dogfood"] = cdc.MustMarshalJSON(app.StakingKeeper.ExportGenesis(ctx))
		out["epochs"] = cdc.MustMarshalJSON(app.EpochsKeeper.ExportGenesis(ctx))
		out["oracle"] = cdc.MustMarshalJSON(oracle.ExportGenesis(ctx, app.OracleKeeper))
		out["exomint"] = cdc.MustMarshalJSON(app.ExomintKeeper.ExportGenesis(ctx))
		out["feedistribution"] = cdc.MustMarshalJSON(app.DistrKeeper.ExportGenesis(ctx))
	})
	return
}

func jsonEqual(a, b json.RawMessage) bool {
	var x, y interface{}
	if json.Unmarshal(a, &x) != nil || json.Unmarshal(b, &y) != nil {
		return false
	}
	return reflect.DeepEqual(x, y)
}

// jsonDiffPaths lists the top-level fields of two JSON objects that differ.
func jsonDiffPaths(a, b json.RawMessage) []string {
	var x, y map[string]json.RawMessage
	if json.Unmarshal(a, &x) != nil || json.Unmarshal(b, &y) != nil {
		return []string{"<not an object>"}
	}
	keys := map[string]int{}
	for k := range x {
		keys[k] = 1
	}
	for k := range y {
		keys[k] = 1
	}
	var out []string
	for _, k := range sortedKeys(keys) {
		if !jsonEqual(x[k], y[k]) {
			if k == "val_set" && jsonEqual(sortedValSet(x[k]), sortedValSet(y[k])) {
				// the order of equal-power validators in the document follows the store order of
				// their records and carries no meaning (InitGenesis sorts what it returns)
				continue
			}
			out = append(out, k)
		}
	}
	return out
}

func sortedValSet(raw json.RawMessage) json.RawMessage {
	var vs []map[string]interface{}
	if json.Unmarshal(raw, &vs) != nil {
		return raw
	}
	sort.Slice(vs, func(i, j int) bool { return fmt.Sprint(vs[i]["public_key"]) < fmt.Sprint(vs[j]["public_key"]) })
	b, _ := json.Marshal(vs)
	return b
}

// classDiff groups a store diff by store:prefix-byte.
func classDiff(diff []DiffEntry) map[string][]DiffEntry {
	out := map[string][]DiffEntry{}
	for _, e := range diff {
		p := "??"
		if len(e.Key) >= 2 {
			p = e.Key[:2]
		}
		c := e.Store + ":" + p
		if e.Store == "feedistribution" {
			c = "feedistribution:claims" // nothing but the parameters of this module is exported
		}
		out[c] = append(out[c], e)
	}
	return out
}

// knownC18StoreClasses returns the store:prefix classes listed as open known findings of the
// import comparison; they are reported once per run and left out of the later comparisons.
func knownC18StoreClasses() map[string]bool {
	out := map[string]bool{}
	const pre = "C18/genesis/import-reproduces-module-state/"
	for c := range KnownClasses() {
		if strings.HasPrefix(c, pre) {
			out["class:"+strings.TrimPrefix(c, pre)] = true
		}
	}
	return out
}

func c18Exec(r *Run) {
	m := r.Mons[0].(*c18Monitor)
	for i := range r.Plan.Blocks {
		r.Plan.Blocks[i].Restart = r.Plan.Blocks[i].Restart && !m.Exported
	}
	r.Execute()
	if r.Viol != nil || r.Stats.Aborted != "" || !m.Exported {
		return
	}
	defer quietApp()()
	r.phase = "Import"
	app := r.Node.App
	cdc := app.AppCodec()
	if mod := os.Getenv("EXOSIM_C18_DUMP"); mod != "" {
		fmt.Fprintf(os.Stderr, "EXPORTED %s: %s\n", mod, string(m.genesis[mod]))
	}
	// 1. the exported document validates (listed modules)
	for _, name := range C18Stores {
		raw, ok := m.genesis[name]
		if !ok {
			if r.violateKeepGoing(m.Name(), "exported-genesis-contains-module", name, "the exported app state has no entry for module "+name) {
				return
			}
			continue
		}
		basic, ok := exocoreapp.ModuleBasics[name].(module.HasGenesisBasics)
		if !ok {
			continue
		}
		var verr error
		p := guard("ValidateGenesis", func() { verr = basic.ValidateGenesis(cdc, EncCfg.TxConfig, raw) })
		if p != nil {
			verr = fmt.Errorf("panic: %v", p.Value)
		}
		if verr != nil {
			if r.violateKeepGoing(m.Name(), "exported-genesis-validates", name+"|"+normIdent(firstN(firstLine(verr.Error()), 90)), fmt.Sprintf("exported %s genesis (after height %d) fails validation: %v", name, m.height-1, verr)) {
				return
			}
		}
	}
	// 2. a fresh chain starts from it
	r.Node.Stop()
	b := NewNode("imported", r.Cfg.ChainID, dbm.NewMemDB())
	if err := b.Start(); err != nil {
		r.abort("harness: start of import node: " + err.Error())
		return
	}
	defer b.Stop()
	state, _ := json.Marshal(m.genesis)
	res, p := b.InitChain(abci.RequestInitChain{Time: m.exportTime, ChainId: r.Cfg.ChainID, ConsensusParams: m.consParams,
		Validators: []abci.ValidatorUpdate{}, AppStateBytes: state, InitialHeight: m.height})
	if p != nil {
		r.violateKeepGoing(m.Name(), "fresh-chain-initialises-from-export", PanicDisc(p), fmt.Sprintf("InitChain from the state exported after height %d panicked: %v\n%s", m.height-1, p.Value, trimStack(p.Stack)))
		return
	}
	hdr := tmproto.Header{ChainID: r.Cfg.ChainID, Height: m.height, Time: m.exportTime}
	bctx := b.App.BaseApp.NewContext(false, hdr)
	// validator set handed to the consensus engine
	got := map[string]int64{}
	for _, v := range res.Validators {
		bz, _ := v.PubKey.Marshal()
		_ = bz
		if ed := v.PubKey.GetEd25519(); ed != nil {
			got[string(ed)] = v.Power
		}
	}
	if len(m.valsAtExp) > 0 && !reflect.DeepEqual(got, m.valsAtExp) {
		if r.violateKeepGoing(m.Name(), "same-validator-set-continues", "init-chain", fmt.Sprintf("InitChain returns %d validators %s; the original chain's set for height %d has %d: %s", len(got), keysOf(got), m.height+1, len(m.valsAtExp), keysOf(m.valsAtExp))) {
			return
		}
	}
	// 3. module state reproduced exactly
	known := knownC18StoreClasses()
	imp := dumpStoresOf(b.App, bctx, C18Stores)
	for _, s := range C18Stores {
		m.KeysCompared += len(m.atExport[s])
	}
	diff := m.atExport.Diff(imp, func(store string, key []byte) bool {
		// the validator updates of the current block are a per-block scratch value: right
		// after InitChain it holds the whole set, after any EndBlock the updates of that block
		return store == "dogfood" && len(key) > 0 && key[0] == 0x0f
	})
	classes := classDiff(diff)
	var cls []string
	for c := range classes {
		cls = append(cls, c)
	}
	sort.Strings(cls)
	for _, c := range cls {
		if r.violateKeepGoing(m.Name(), "import-reproduces-module-state", c, fmt.Sprintf("state exported after height %d and imported into a fresh chain differs in %d keys of %s (original -> imported):\n%s", m.height-1, len(classes[c]), c, fmtDiff(classes[c], 6))) {
			return
		}
	}
	// 4. exporting again yields the same document
	re, p := moduleExports(b.App, bctx)
	if p != nil {
		if r.violateKeepGoing(m.Name(), "re-export-succeeds", PanicDisc(p), fmt.Sprintf("%v\n%s", p.Value, trimStack(p.Stack))) {
			return
		}
	} else {
		for _, name := range C18Stores {
			if !jsonEqual(m.genesis[name], re[name]) {
				fields := jsonDiffPaths(m.genesis[name], re[name])
				for _, f := range fields {
					var x, y map[string]json.RawMessage
					_ = json.Unmarshal(m.genesis[name], &x)
					_ = json.Unmarshal(re[name], &y)
					if r.violateKeepGoing(m.Name(), "second-export-equals-first", name+"."+f, fmt.Sprintf("module %s: field %s of the document exported from the imported chain differs from the first export:\nfirst:  %s\nsecond: %s", name, f, firstN(string(x[f]), 600), firstN(string(y[f]), 600))) {
						return
					}
				}
			}
		}
	}
	for c := range classes {
		if known["class:"+c] && c != "feedistribution:claims" && c != "oracle:4b" {
			// a listed difference in state that steers later behaviour: the later comparison
			// would only show its consequences
			r.Probe("c18_continuation_skipped_after_known_difference")
			return
		}
	}
	if r.Stats.KnownHits[r.Prop+"/"+m.Name()+"/same-validator-set-continues/init-chain"] > 0 {
		r.Probe("c18_continuation_skipped_after_known_difference")
		return
	}
	if os.Getenv("EXOSIM_C18_TRACE") != "" {
		fmt.Fprintf(os.Stderr, "TRACE import ok: keys=%d height=%d blocks-after=%d known=%v\n", m.KeysCompared, m.height, int64(len(r.Chain.Blocks))-m.height+1, r.Stats.KnownHits)
	}
	// 5. the re-started chain behaves like the original
	r.phase = "Continuation"
	c := NewChain(r.W)
	ignore := func(store string, key []byte) bool {
		// the fee-distribution claims are not exported (listed finding): that store cannot agree
		if store == "oracle" && known["class:oracle:4b"] && strings.HasPrefix(string(key), "KeyNonce/") {
			return true // the submission nonces are not exported (listed finding)
		}
		return store == "feedistribution" && known["class:feedistribution:claims"]
	}
	for _, rec := range r.Chain.Blocks {
		if rec.Height < m.height {
			continue
		}
		if _, p := b.BeginBlock(c.BeginBlockRequest(rec.Header, rec.Votes, rec.Evidence)); p != nil {
			r.violateKeepGoing(m.Name(), "restarted-chain-behaves-like-original", "panic:"+PanicDisc(p), fmt.Sprintf("BeginBlock %d on the imported chain panicked: %v\n%s", rec.Height, p.Value, trimStack(p.Stack)))
			return
		}
		for i, tx := range rec.Txs {
			resp, p := b.DeliverTx(tx)
			if p != nil {
				r.violateKeepGoing(m.Name(), "restarted-chain-behaves-like-original", "panic:"+PanicDisc(p), fmt.Sprintf("DeliverTx on the imported chain panicked: %v", p.Value))
				return
			}
			if (resp.Code == 0) != (rec.TxResults[i].Code == 0) {
				if r.violateKeepGoing(m.Name(), "restarted-chain-behaves-like-original", "tx-outcome", fmt.Sprintf("height %d tx %d: code %d on the imported chain, %d on the original (%s | %s)", rec.Height, i, resp.Code, rec.TxResults[i].Code, firstN(resp.Log, 200), firstN(rec.TxResults[i].Log, 200))) {
					return
				}
			}
		}
		eb, p := b.EndBlock(rec.Height)
		if p != nil {
			r.violateKeepGoing(m.Name(), "restarted-chain-behaves-like-original", "panic:"+PanicDisc(p), fmt.Sprintf("EndBlock %d on the imported chain panicked: %v\n%s", rec.Height, p.Value, trimStack(p.Stack)))
			return
		}
		if !equalUpdates(eb.ValidatorUpdates, rec.ValUpdates) {
			if r.violateKeepGoing(m.Name(), "restarted-chain-behaves-like-original", "validator-updates", fmt.Sprintf("height %d: validator updates %s on the imported chain, %s on the original", rec.Height, fmtUpdates(eb.ValidatorUpdates), fmtUpdates(rec.ValUpdates))) {
				return
			}
		}
		if _, p := b.Commit(); p != nil {
			r.violateKeepGoing(m.Name(), "restarted-chain-behaves-like-original", "panic:"+PanicDisc(p), fmt.Sprintf("Commit %d on the imported chain panicked: %v", rec.Height, p.Value))
			return
		}
		m.Continued++
		cctx := b.App.BaseApp.NewUncachedContext(false, rec.Header)
		now := dumpStoresOf(b.App, cctx, C18Stores)
		want := m.later[rec.Height]
		if want == nil {
			continue
		}
		if d := want.Diff(now, ignore); len(d) > 0 {
			if r.violateKeepGoing(m.Name(), "restarted-chain-behaves-like-original", "state:"+PrefixClass(d), fmt.Sprintf("%d blocks after the import (height %d) the listed modules' stores differ in %d keys (original -> imported):\n%s", rec.Height-m.height+1, rec.Height, len(d), fmtDiff(d, 8))) {
				return
			}
		}
	}
}

func keysOf(m map[string]int64) string {
	var ks []string
	for k := range m {
		ks = append(ks, k)
	}
	sort.Strings(ks)
	out := ""
	for _, k := range ks {
		out += fmt.Sprintf("%x:%d ", []byte(k)[:4], m[k])
	}
	return out
}

func powersOf(m map[string]int64) []int64 {
	var ks []string
	for k := range m {
		ks = append(ks, k)
	}
	sort.Strings(ks)
	var out []int64
	for _, k := range ks {
		out = append(out, m[k])
	}
	return out
}

// violateKeepGoing reports a violation whose class, if it is an open known finding, is only
// counted: the caller goes on and compares the rest.
func (r *Run) violateKeepGoing(mon, inv, disc, detail string) bool {
	if os.Getenv("EXOSIM_C18_SURVEY") != "" {
		fmt.Fprintf(os.Stderr, "SURVEY %s/%s :: %s\n", inv, disc, firstN(detail, 700))
		return false
	}
	class := r.Prop + "/" + mon + "/" + inv + "/" + disc
	if KnownClasses()[class] && (!r.NoKnown || (TargetClass != "" && TargetClass != class)) {
		// the classes of this check are independent comparisons: a listed one is counted and
		// the comparison goes on, without masking the others
		if r.Stats.KnownHits == nil {
			r.Stats.KnownHits = map[string]int{}
		}
		r.Stats.KnownHits[class]++
		return false
	}
	if r.Viol != nil {
		return true
	}
	r.Viol = &Violation{Prop: r.Prop, Monitor: mon, Invariant: inv, Disc: disc, Detail: detail, Block: r.curBlock, OpIdx: r.curOp, Height: r.Chain.CurHeader.Height, Phase: r.phase}
	return true
}

func c18Plan(p *PRNG, cfg Config, tier string) Plan {
	o := LedgerGenOpts{DowntimeBursts: p.Chance(1, 2), Evidence: p.Chance(1, 2), EpochJumps: true, Restarts: p.Chance(1, 3), NonceCollisions: true, MultiOperatorMsgs: true,
		W: map[string]int{"dep": 8, "wd": 3, "del": 9, "und": 10, "assoc": 3, "dissoc": 2, "ndel": 3, "nund": 3, "optin": 4, "optout": 3, "setkey": 4, "unjail": 1, "send": 1, "dfparams": 1}}
	o.MinBlocks, o.MaxBlocks = 20, 50
	if tier == "thorough" {
		o.MinBlocks, o.MaxBlocks = 30, 100
	}
	plan := GenLedgerPlan(p, cfg, o)
	op := GenOraclePlan(NewPRNG(p.Uint64()), cfg, OracleGenOpts{MinBlocks: len(plan.Blocks), MaxBlocks: len(plan.Blocks), ValsetChanges: false})
	for i := range plan.Blocks {
		if i < len(op.Blocks) && p.Chance(2, 3) {
			plan.Blocks[i].Ops = append(plan.Blocks[i].Ops, op.Blocks[i].Ops...)
		}
	}
	// the export point: any height, biased towards the blocks right after an undelegation / opt-out
	n := len(plan.Blocks)
	e := n/3 + p.Intn(n/2+1)
	if e >= n-2 {
		e = n - 3
	}
	plan.Blocks[e].Export = true
	// the continuation: the consensus engine of a new chain has no commit and no evidence for
	// heights before its first block, so no downtime or evidence is injected after the export
	ep := dogfoodEpochSecs(cfg)
	for i := e + 1; i < n; i++ {
		plan.Blocks[i].Absent, plan.Blocks[i].Evid, plan.Blocks[i].Restart = nil, nil, false
		// listed finding K10: the imported chain has lost the submission nonces and rejects every
		// price submission until the next validator-set change, so the continuation carries none
		var keep []Op
		for _, o := range plan.Blocks[i].Ops {
			if o.K != "price" {
				keep = append(keep, o)
			}
		}
		plan.Blocks[i].Ops = keep
	}
	// let queues drain on both chains
	for i := 0; i < int(cfg.UnbondEpochs)+2; i++ {
		plan.Blocks = append(plan.Blocks, Block{DtNs: ep*1e9 + 1e9}, Block{DtNs: 1e9})
	}
	return plan
}

func init() {
	Register(&PropSpec{
		ID: "C18", Level: "exploration",
		Rule: "case = a C01/C03/C06/C07/C12/C16 history (ledger operations, undelegations, opt-outs, key replacements, downtime slashing, evidence, oracle rounds, epoch jumps, restarts) on node A with an export point at a random committed height (mid-epoch, mid oracle window, with pending undelegations and queue entries); the application's own export path produces the document; every listed module's part must pass its ValidateGenesis; a fresh node B runs InitChain on it (exported initial height and consensus params); the byte-level dumps of the assets, delegation, operator, dogfood, epochs, oracle, exomint and feedistribution stores of A (at the export height) and B must be equal; B's validator set must be the set the original chain uses next; the listed modules exported again from B must equal the first document; then the blocks A executed after the export (operations, epoch ends, no downtime/evidence) are executed on B and after every block the listed stores, validator updates and transaction outcomes must agree; non-trivial = export with >= 1 pending undelegation or dogfood queue entry, >= 50 keys compared and >= 10 blocks continued",
		Assumptions: []string{"the new chain's consensus engine supplies no commit info or evidence about heights before its first block, so none is injected after the export point", "the dogfood module's historical-info entries (block-history cache for IBC) are not compared: the SDK's staking module does not export them either and nothing in the statement's behaviour clause depends on them", "a stored undelegation hold count of zero is the same state as no stored count", "the AVS module is not among the listed modules: only the chain's own (dogfood) AVS exists in these histories", "A and B run one after the other in one OS process (the oracle's package-level state is reset in between)"},
		Real: []string{"app.ExportAppStateAndValidators, every module's ExportGenesis / ValidateGenesis / InitGenesis", "InitChain with a non-default initial height"},
		QuickRuns:   200, ThoroughRuns: 3000,
		GenConfig: func(p *PRNG, tier string) Config {
			c := SwarmConfig(p, SwarmOpts{WithNST: true, EpochSecs: []int64{15, 20, 30}})
			c.HugeAmounts = false
			return c
		},
		GenPlan:  c18Plan,
		Monitors: func() []Monitor { return []Monitor{&c18Monitor{}} },
		Exec:     c18Exec,
		NonTrivial: func(r *Run) bool {
			m := r.Mons[0].(*c18Monitor)
			return m.Exported && (m.PendingUndelegations > 0 || m.QueueEntries > 0) && m.KeysCompared >= 50 && m.Continued >= 10
		},
	})
}

var identRe = regexp.MustCompile(`0x[0-9a-fA-F]+|exo(valcons|valoper)?1[0-9a-z]+`)

// normIdent replaces addresses and hashes by placeholders (for discriminators).
func normIdent(s string) string { return normDigits(identRe.ReplaceAllString(s, "<id>")) }
