package sim

import (
	"fmt"
	"runtime/debug"

	dbm "github.com/cometbft/cometbft-db"
	abci "github.com/cometbft/cometbft/abci/types"
	"github.com/cometbft/cometbft/libs/log"
	"github.com/cosmos/cosmos-sdk/baseapp"
	simtestutil "github.com/cosmos/cosmos-sdk/testutil/sims"
	sdk "github.com/cosmos/cosmos-sdk/types"
	"github.com/evmos/evmos/v16/encoding"

	exocoreapp "github.com/ExocoreNetwork/exocore/app"
	oraclekeeper "github.com/ExocoreNetwork/exocore/x/oracle/keeper"
	oraclecommon "github.com/ExocoreNetwork/exocore/x/oracle/keeper/common"
	oracletypes "github.com/ExocoreNetwork/exocore/x/oracle/types"
)

var EncCfg = encoding.MakeConfig(exocoreapp.ModuleBasics)

// Node is one application instance on top of a (durable) DB. Only the DB survives a crash.
type Node struct {
	Name    string
	ChainID string
	DB      dbm.DB
	App     *exocoreapp.ExocoreApp
	Starts  int
}

// ResetOracleGlobals puts the oracle's package-level singletons into the state a freshly
// started OS process has. Exactly one Node is "installed" at a time (the simulator is
// single-threaded), so clearing them models process death.
func ResetOracleGlobals() {
	oraclekeeper.ResetAggregatorContext()
	oraclekeeper.ResetAggregatorContextCheckTx()
	oraclekeeper.ResetCache()
	oraclekeeper.ResetUpdatedFeederIDs()
	oraclecommon.MaxNonce = 3
	oraclecommon.ThresholdA = 2
	oraclecommon.ThresholdB = 3
	oraclecommon.MaxDetID = 5
	oraclecommon.Mode = oracletypes.ConsensusModeASAP
	verifResetOracleOnce()
}

func NewNode(name, chainID string, db dbm.DB) *Node {
	return &Node{Name: name, ChainID: chainID, DB: db}
}

// Start (or restart) constructs a new application object over the node's DB; all
// in-memory state of a previous instance is dropped.
func (n *Node) Start() (err error) {
	defer func() {
		if r := recover(); r != nil {
			err = fmt.Errorf("panic constructing app: %v\n%s", r, debug.Stack())
		}
	}()
	ResetOracleGlobals()
	n.App = exocoreapp.NewExocoreApp(
		log.NewNopLogger(), n.DB, nil, true, map[int64]bool{},
		"/nonexistent-exosim-home", 0, EncCfg,
		simtestutil.NewAppOptionsWithFlagHome("/nonexistent-exosim-home"),
		baseapp.SetChainID(n.ChainID),
	)
	n.Starts++
	return nil
}

// Stop drops the app object (process death). The DB stays.
func (n *Node) Stop() {
	n.App = nil
	ResetOracleGlobals()
}

// PanicError wraps a panic that escaped an ABCI call.
type PanicError struct {
	Phase string
	Value interface{}
	Stack string
}

func (p *PanicError) Error() string { return fmt.Sprintf("panic in %s: %v", p.Phase, p.Value) }

func guard(phase string, f func()) (perr *PanicError) {
	defer func() {
		if r := recover(); r != nil {
			perr = &PanicError{Phase: phase, Value: r, Stack: string(debug.Stack())}
		}
	}()
	f()
	return nil
}

func (n *Node) InitChain(req abci.RequestInitChain) (res abci.ResponseInitChain, perr *PanicError) {
	perr = guard("InitChain", func() { res = n.App.InitChain(req) })
	return
}

func (n *Node) BeginBlock(req abci.RequestBeginBlock) (res abci.ResponseBeginBlock, perr *PanicError) {
	perr = guard("BeginBlock", func() { res = n.App.BeginBlock(req) })
	return
}

func (n *Node) DeliverTx(tx []byte) (res abci.ResponseDeliverTx, perr *PanicError) {
	perr = guard("DeliverTx", func() { res = n.App.DeliverTx(abci.RequestDeliverTx{Tx: tx}) })
	return
}

func (n *Node) CheckTx(tx []byte, recheck bool) (res abci.ResponseCheckTx, perr *PanicError) {
	t := abci.CheckTxType_New
	if recheck {
		t = abci.CheckTxType_Recheck
	}
	perr = guard("CheckTx", func() { res = n.App.CheckTx(abci.RequestCheckTx{Tx: tx, Type: t}) })
	return
}

func (n *Node) EndBlock(h int64) (res abci.ResponseEndBlock, perr *PanicError) {
	perr = guard("EndBlock", func() { res = n.App.EndBlock(abci.RequestEndBlock{Height: h}) })
	return
}

func (n *Node) Commit() (res abci.ResponseCommit, perr *PanicError) {
	perr = guard("Commit", func() { res = n.App.Commit() })
	return
}

// DeliverCtx returns a context over the in-flight (deliver) state; valid between BeginBlock and Commit.
func (n *Node) DeliverCtx(c *Chain) sdk.Context {
	return n.App.BaseApp.NewContext(false, c.CurHeader)
}

// CommittedCtx returns a context over the last committed state (valid after Commit / InitChain).
func (n *Node) CommittedCtx(c *Chain) sdk.Context {
	return n.App.BaseApp.NewUncachedContext(false, c.CurHeader)
}
