//go:build verif

package sim

import "github.com/ExocoreNetwork/exocore/x/oracle"

func verifResetOracleOnce() { oracle.VerifResetOnce() }
