package sim

import (
	"bytes"
	"fmt"
	"math/big"
	"sort"
	"strings"

	sdkmath "cosmossdk.io/math"
	sdk "github.com/cosmos/cosmos-sdk/types"
	"github.com/ethereum/go-ethereum/crypto"
	"github.com/prysmaticlabs/prysm/v4/crypto/bls/blst"

	avstypes "github.com/ExocoreNetwork/exocore/x/avs/types"
)

// C20 — AVS registry and task windows are enforced.
//
// The monitor keeps its own record of what was accepted (results, challenges, task ids, BLS
// keys) and judges every accepted operation against the statement's conditions evaluated on
// the state before the transaction. "Accepted" is the operation's own verdict (tx code 0 and,
// for precompile calls, a true success flag) — for challenges, a newly stored challenge record.

type c20Result struct {
	sig, resp []byte
	stage     string
}

type c20Pre struct {
	avsExists    bool
	avsByTask    string // AVS address owning TaskAddr before the tx
	isOperator   bool
	optedIn      bool
	minSelf      *big.Int // x1e18
	self         *big.Int // x1e18, nil if not computable
	task         *avstypes.TaskInfo
	epochID      string
	epochFound   bool
	curEpoch     int64
	origEpochID  string // the AVS's epoch identifier when the task was created, if it has changed since
	origEpoch    int64  // current epoch number of that identifier
	hasResult    bool
	storedResult *avstypes.TaskResultInfo
	pubKey       []byte
	challenged   bool
	challenger   string
	lastID       uint64
	frozen       bool
}

type c20Monitor struct {
	taskEpochID map[string]string // task contract|id -> epoch identifier of its AVS at creation
	BaseMonitor
	results    map[string]*c20Result
	challenged map[string]bool
	lastID     map[string]uint64
	pre        *c20Pre
	statDone   map[string]bool
	// coverage
	Accepted   map[string]int
	Rejected   map[string]int
	StatTasks  int
	StatGroupsSameEpoch int
	Boundary   int
}

func (m *c20Monitor) Name() string { return "avs" }

func (m *c20Monitor) Init(r *Run) {
	m.results, m.challenged, m.lastID = map[string]*c20Result{}, map[string]bool{}, map[string]uint64{}
	m.Accepted, m.Rejected, m.statDone = map[string]int{}, map[string]int{}, map[string]bool{}
}

func resKey(op, taskAddr string, id uint64) string {
	// the operator in its canonical spelling: bech32 also accepts an all-upper-case form
	if acc, err := sdk.AccAddressFromBech32(op); err == nil {
		op = acc.String()
	}
	return fmt.Sprintf("%s|%s|%d", op, taskAddr, id)
}

// modelSelfUSD recomputes an operator's self-delegated USD value (x1e18) over a set of assets from
// the ledger: per asset trunc18(tokens(self share) * price / 10^(asset decimals + price decimals)).
func modelSelfUSD(r *Run, ctx sdk.Context, operator string, assets []string) (self *big.Int, ok bool) {
	app := r.Node.App
	l := r.Ledger(ctx)
	self = new(big.Int)
	for _, a := range assets {
		pool, has := l.Pools[operator+"/"+a]
		if !has {
			continue
		}
		var pr priceInfo
		_ = guard("probe", func() {
			p, err := app.OracleKeeper.GetSpecifiedAssetsPrice(ctx, a)
			if err == nil && !p.Value.IsNil() {
				pr = priceInfo{val: p.Value.BigInt(), dec: int64(p.Decimal)}
			}
		})
		if pr.val == nil || pool.TotalAmount.BigInt().BitLen() > 100 {
			return nil, false
		}
		info, err := app.AssetsKeeper.GetStakingAssetInfo(ctx, a)
		if err != nil {
			return nil, false
		}
		div := new(big.Int).Exp(big.NewInt(10), big.NewInt(int64(info.AssetBasicInfo.Decimals)+pr.dec), nil)
		selfTok := new(big.Int)
		if !pool.TotalShare.IsZero() {
			q := new(big.Rat).Mul(ratOf(pool.OperatorShare), new(big.Rat).SetInt(pool.TotalAmount.BigInt()))
			q.Quo(q, ratOf(pool.TotalShare))
			selfTok = new(big.Int).Quo(roundDec18(q), ten18)
		}
		sv := new(big.Rat).SetFrac(new(big.Int).Mul(selfTok, pr.val), div)
		self.Add(self, truncDec18(sv))
	}
	return self, true
}

func (m *c20Monitor) BeforeTx(r *Run, ctx sdk.Context, tx *BuiltTx) {
	m.pre = nil
	a := tx.AVS
	if a == nil || tx.Note == "replay" && false {
		return
	}
	app := r.Node.App
	k := app.AVSManagerKeeper
	pre := &c20Pre{}
	if a.AVS != "" {
		if info, err := k.GetAVSInfo(ctx, a.AVS); err == nil && info != nil && info.Info != nil {
			pre.avsExists = true
			pre.minSelf = new(big.Int).Mul(new(big.Int).SetUint64(info.Info.MinSelfDelegation), ten18)
			if a.Operator != "" && (a.Kind == "avsopt" || a.Kind == "optin") {
				pre.self, _ = modelSelfUSD(r, ctx, a.Operator, info.Info.AssetIDs)
			}
		}
	}
	if a.TaskAddr != "" {
		pre.avsByTask = k.GetAVSInfoByTaskAddress(ctx, a.TaskAddr).AvsAddress
	}
	if a.Operator != "" {
		if acc, err := sdk.AccAddressFromBech32(a.Operator); err == nil {
			pre.isOperator = app.OperatorKeeper.IsOperator(ctx, acc)
		}
		if a.AVS != "" {
			pre.optedIn = app.OperatorKeeper.IsOptedIn(ctx, a.Operator, a.AVS)
		}
		if pk, err := k.GetOperatorPubKey(ctx, a.Operator); err == nil && pk != nil {
			pre.pubKey = pk.PubKey
		}
	}
	if a.Kind == "avsres" || a.Kind == "avschal" {
		if t, err := k.GetTaskInfo(ctx, fmt.Sprint(a.TaskID), a.TaskAddr); err == nil {
			pre.task = t
		}
		avs := k.GetAVSInfoByTaskAddress(ctx, a.TaskAddr)
		pre.epochID = avs.EpochIdentifier
		if e, found := app.EpochsKeeper.GetEpochInfo(ctx, avs.EpochIdentifier); found {
			pre.epochFound, pre.curEpoch = true, e.CurrentEpoch
		}
		if res, err := k.GetTaskResultInfo(ctx, a.Operator, a.TaskAddr, a.TaskID); err == nil && res != nil {
			pre.hasResult, pre.storedResult = true, res
		}
		if orig := m.taskEpochID[fmt.Sprintf("%s|%d", a.TaskAddr, a.TaskID)]; orig != "" && orig != avs.EpochIdentifier {
			if e, found := app.EpochsKeeper.GetEpochInfo(ctx, orig); found {
				pre.origEpochID, pre.origEpoch = orig, e.CurrentEpoch
			}
		}
		pre.challenged = k.IsExistTaskChallengedInfo(ctx, a.Operator, a.TaskAddr, a.TaskID)
		if pre.challenged {
			pre.challenger, _ = k.GetTaskChallengedInfo(ctx, a.Operator, a.TaskAddr, a.TaskID)
		}
	}
	if a.Kind == "avstask" {
		pre.lastID = r.latestTaskID(ctx, a.TaskAddr)
		pre.epochID = k.GetAVSInfoByTaskAddress(ctx, a.TaskAddr).EpochIdentifier
	}
	m.pre = pre
}

func (m *c20Monitor) fail(r *Run, inv, disc, detail string) bool {
	return r.Violate(m.Name(), inv, disc, detail)
}

func (m *c20Monitor) AfterTx(r *Run, ctx sdk.Context, tx *TxResult) {
	a, pre := tx.AVS, m.pre
	if a == nil || pre == nil {
		return
	}
	app := r.Node.App
	k := app.AVSManagerKeeper
	if tx.OK {
		m.Accepted[a.Kind]++
	} else {
		m.Rejected[a.Kind]++
	}
	switch a.Kind {
	case "avsreg", "avsupd":
		if tx.OK {
			if a.Kind == "avsreg" && pre.avsExists {
				if m.fail(r, "avs-address-registered-at-most-once", "registered-again", fmt.Sprintf("%s succeeded although %s was already registered", tx.Op, a.AVS)) {
					return
				}
			}
			if pre.avsByTask != "" && !strings.EqualFold(pre.avsByTask, a.AVS) {
				if m.fail(r, "task-address-belongs-to-at-most-one-avs", a.Kind, fmt.Sprintf("%s succeeded although task address %s already belonged to AVS %s", tx.Op, a.TaskAddr, pre.avsByTask)) {
					return
				}
			}
			r.State("c20:" + a.Kind)
		}
		m.checkRegistry(r, ctx)
	case "avsdereg":
		m.checkRegistry(r, ctx)
	case "avsopt", "optin":
		if !tx.OK || a.Out {
			return
		}
		if !pre.avsExists {
			m.fail(r, "only-registered-avs-accepts-opt-in", a.Kind, fmt.Sprintf("%s: opt-in to %s accepted although no such AVS is registered", tx.Op, a.AVS))
			return
		}
		if !pre.isOperator {
			m.fail(r, "opt-in-requires-registered-operator", a.Kind, fmt.Sprintf("%s: opt-in of %s accepted although it is not a registered operator", tx.Op, a.Operator))
			return
		}
		if pre.self != nil && pre.minSelf != nil {
			if pre.self.Cmp(pre.minSelf) < 0 {
				m.fail(r, "opt-in-requires-minimum-self-delegation", a.Kind, fmt.Sprintf("%s: opt-in of %s to %s accepted with self-delegated value %s below the AVS minimum %s", tx.Op, a.Operator, a.AVS, decStr(pre.self), decStr(pre.minSelf)))
				return
			}
			if pre.minSelf.Sign() > 0 {
				r.Probe("c20_optin_with_positive_minimum")
			}
		}
		r.State("c20:optin")
	case "avstask":
		if !tx.OK {
			// a refused creation must not consume an id
			if got := r.latestTaskID(ctx, a.TaskAddr); got != pre.lastID {
				m.fail(r, "task-ids-unique-and-increasing-from-one", "refused-creation-added-task", fmt.Sprintf("%s failed but the highest task id of %s moved %d -> %d", tx.Op, a.TaskAddr, pre.lastID, got))
			}
			return
		}
		want := m.lastID[a.TaskAddr] + 1
		var ids []uint64
		k.IterateTaskAVSInfo(ctx, func(_ int64, t avstypes.TaskInfo) bool {
			if strings.EqualFold(t.TaskContractAddress, a.TaskAddr) {
				ids = append(ids, t.TaskId)
			}
			return false
		})
		sort.Slice(ids, func(i, j int) bool { return ids[i] < ids[j] })
		okIDs := uint64(len(ids)) == want
		for i, id := range ids {
			if id != uint64(i+1) {
				okIDs = false
			}
		}
		if !okIDs {
			m.fail(r, "task-ids-unique-and-increasing-from-one", "ids", fmt.Sprintf("%s: after the %d-th accepted creation the task ids of %s are %v", tx.Op, want, a.TaskAddr, ids))
			return
		}
		m.lastID[a.TaskAddr] = want
		if m.taskEpochID == nil {
			m.taskEpochID = map[string]string{}
		}
		m.taskEpochID[fmt.Sprintf("%s|%d", a.TaskAddr, want)] = pre.epochID
		if pre.avsByTask == "" {
			m.fail(r, "task-created-only-by-registered-task-contract", "no-avs", fmt.Sprintf("%s: task created for %s which is no AVS's task address", tx.Op, a.TaskAddr))
			return
		}
		// the task's snapshot of opted-in operators (the base of its non-signer list) holds exactly
		// the operators that are opted into the AVS now: not those that have opted out again
		if ti, err := k.GetTaskInfo(ctx, fmt.Sprint(want), a.TaskAddr); err == nil && ti != nil {
			var wantOps []string
			for i := 0; i < r.W.Cfg.NOps; i++ {
				o := r.W.Op(i).Addr.String()
				if r.Node.App.OperatorKeeper.IsOptedIn(ctx, o, pre.avsByTask) {
					wantOps = append(wantOps, o)
				}
			}
			got := append([]string{}, ti.OptInOperators...)
			sort.Strings(got)
			sort.Strings(wantOps)
			if strings.Join(got, ",") != strings.Join(wantOps, ",") {
				m.fail(r, "task-snapshot-holds-the-opted-in-operators", "opted-out-included", fmt.Sprintf("%s: task %d of %s records the opted-in operators %v; opted into %s at that moment are %v", tx.Op, want, a.TaskAddr, got, pre.avsByTask, wantOps))
				return
			}
		}
		r.State("c20:task")
	case "blsreg":
		if tx.OK {
			r.State("c20:bls")
		}
	case "avsres":
		m.afterResult(r, ctx, tx, a, pre)
	case "avschal":
		now := k.IsExistTaskChallengedInfo(ctx, a.Operator, a.TaskAddr, a.TaskID)
		if !now || pre.challenged {
			if tx.OK && !now {
				// the precompile reported the challenge as accepted (observable output), yet nothing is
				// recorded: an acceptance outside every stated condition
				m.fail(r, "challenge-reported-as-accepted-is-recorded", "no-record", fmt.Sprintf("%s: the challenge of %s returned success in epoch %d but no challenge is recorded", tx.Op, resKey(a.Operator, a.TaskAddr, a.TaskID), pre.curEpoch))
				return
			}
			if pre.challenged {
				// a second challenge must not replace the recorded one
				if who, _ := k.GetTaskChallengedInfo(ctx, a.Operator, a.TaskAddr, a.TaskID); who != pre.challenger {
					m.fail(r, "challenge-once-per-operator-and-task", "twice", fmt.Sprintf("%s: a second challenge of %s replaced the recorded challenger %s by %s", tx.Op, resKey(a.Operator, a.TaskAddr, a.TaskID), pre.challenger, who))
				}
			}
			return
		}
		// newly recorded
		key := resKey(a.Operator, a.TaskAddr, a.TaskID)
		if m.challenged[key] {
			m.fail(r, "challenge-once-per-operator-and-task", "twice", fmt.Sprintf("%s: challenge of %s recorded twice", tx.Op, key))
			return
		}
		m.challenged[key] = true
		if pre.task == nil || !pre.epochFound {
			m.fail(r, "challenge-only-during-challenge-period", "no-task", fmt.Sprintf("%s: challenge recorded for an unknown task %s", tx.Op, key))
			return
		}
		t := pre.task
		lo := int64(t.StartingEpoch) + int64(t.TaskResponsePeriod) + int64(t.TaskStatisticalPeriod)
		hi := lo + int64(t.TaskChallengePeriod)
		if pre.curEpoch <= lo || pre.curEpoch > hi {
			m.fail(r, "challenge-only-during-challenge-period", "outside", fmt.Sprintf("%s: challenge of %s recorded in epoch %d; the challenge period is (%d, %d]", tx.Op, key, pre.curEpoch, lo, hi))
			return
		}
		if _, ok := m.results[key]; !ok {
			m.fail(r, "challenge-refers-to-accepted-result", "no-result", fmt.Sprintf("%s: challenge of %s recorded but no result was ever accepted for it", tx.Op, key))
			return
		}
		if pre.curEpoch == lo+1 || pre.curEpoch == hi {
			m.Boundary++
		}
		r.State("c20:challenge")
	}
}

func (m *c20Monitor) afterResult(r *Run, ctx sdk.Context, tx *TxResult, a *AVSTx, pre *c20Pre) {
	k := r.Node.App.AVSManagerKeeper
	key := resKey(a.Operator, a.TaskAddr, a.TaskID)
	if !tx.OK {
		// a refused submission leaves the recorded result as it was
		res, err := k.GetTaskResultInfo(ctx, a.Operator, a.TaskAddr, a.TaskID)
		has := err == nil && res != nil
		if has != pre.hasResult || (has && !sameResult(res, pre.storedResult)) {
			m.fail(r, "refused-result-leaves-record-unchanged", "stage-"+a.Stage, fmt.Sprintf("%s was refused (%s) but the recorded result of %s changed", tx.Op, firstN(errClass(tx), 80), key))
		}
		return
	}
	if a.NilInfo {
		m.fail(r, "result-accepted-only-with-content", "nil-info", fmt.Sprintf("%s accepted", tx.Op))
		return
	}
	bad := func(disc, why string) {
		m.fail(r, "result-accepted-only-under-stated-conditions", disc, fmt.Sprintf("%s accepted although %s (epoch %d of %q, task %s)", tx.Op, why, pre.curEpoch, pre.epochID, taskStr(pre.task)))
	}
	switch {
	case a.From != a.Operator:
		bad("signer-is-not-the-operator", "the message signer "+a.From+" is not the operator "+a.Operator)
		return
	case !pre.isOperator:
		bad("unregistered-operator", a.Operator+" is not a registered operator")
		return
	case pre.pubKey == nil:
		bad("no-bls-key", a.Operator+" has no registered BLS key")
		return
	case pre.task == nil:
		bad("unknown-task", "the task does not exist")
		return
	case !pre.epochFound:
		bad("no-epoch", "the AVS epoch is unknown")
		return
	}
	t := pre.task
	respEnd := int64(t.StartingEpoch) + int64(t.TaskResponsePeriod)
	statEnd := respEnd + int64(t.TaskStatisticalPeriod)
	if pre.origEpochID != "" {
		// the AVS changed its epoch identifier after the task was created: the task's windows are
		// numbers of the ORIGINAL identifier's epochs
		in := (a.Stage == avstypes.TwoPhaseCommitOne && pre.origEpoch <= respEnd) || (a.Stage == avstypes.TwoPhaseCommitTwo && pre.origEpoch > respEnd && pre.origEpoch <= statEnd)
		if !in {
			r.violateKeepGoing(m.Name(), "result-accepted-only-under-stated-conditions", "window-counted-in-another-epoch-identifier", fmt.Sprintf("%s accepted in epoch %d of %q, the identifier the task was created under (response period ends with %d, statistical with %d); the AVS meanwhile counts in %q (epoch %d)", tx.Op, pre.origEpoch, pre.origEpochID, respEnd, statEnd, pre.epochID, pre.curEpoch))
			r.Probe("c20_epoch_identifier_changed_under_task")
		}
	}
	switch a.Stage {
	case avstypes.TwoPhaseCommitOne:
		if pre.hasResult || m.results[key] != nil {
			bad("phase-one-twice", "a result of this operator for this task was already recorded")
			return
		}
		if pre.curEpoch > respEnd {
			bad("phase-one-after-response-period", fmt.Sprintf("the response period ended with epoch %d", respEnd))
			return
		}
		if len(a.Sig) == 0 {
			bad("phase-one-without-signature", "it carries no signature")
			return
		}
		if len(a.Response) != 0 {
			bad("phase-one-with-response", "it already reveals the response")
			return
		}
		if pre.curEpoch == respEnd {
			m.Boundary++
			r.Probe("c20_phase_one_on_last_epoch")
		}
		if t.TaskResponsePeriod == 0 {
			r.Probe("c20_zero_response_period")
		}
		m.results[key] = &c20Result{sig: a.Sig, stage: a.Stage}
		r.State("c20:phase1")
	case avstypes.TwoPhaseCommitTwo:
		prev := m.results[key]
		if prev == nil || !pre.hasResult {
			bad("phase-two-without-phase-one", "no phase-one submission was recorded")
			return
		}
		if !bytes.Equal(prev.sig, a.Sig) {
			bad("phase-two-signature-differs", "its signature differs from the phase-one signature")
			return
		}
		if pre.curEpoch <= respEnd || pre.curEpoch > statEnd {
			bad("phase-two-outside-statistical-period", fmt.Sprintf("the statistical period is (%d, %d]", respEnd, statEnd))
			return
		}
		resp, err := avstypes.UnmarshalTaskResponse(a.Response)
		if err != nil || resp.TaskID != a.TaskID {
			bad("phase-two-task-id-mismatch", "the response does not carry the task id")
			return
		}
		pub, err := blst.PublicKeyFromBytes(pre.pubKey)
		valid := false
		if err == nil && pub != nil {
			var d [32]byte
			copy(d[:], crypto.Keccak256(a.Response))
			valid, _ = blst.VerifySignature(a.Sig, d, pub)
		}
		if !valid {
			bad("phase-two-bad-bls-signature", "the BLS signature does not verify against the operator's registered key")
			return
		}
		if pre.curEpoch == respEnd+1 || pre.curEpoch == statEnd {
			m.Boundary++
			r.Probe("c20_phase_two_on_boundary_epoch")
		}
		m.results[key] = &c20Result{sig: a.Sig, resp: a.Response, stage: a.Stage}
		r.State("c20:phase2")
	default:
		bad("unknown-stage", "stage "+a.Stage+" does not exist")
		return
	}
	// the record is what was accepted
	res, err := k.GetTaskResultInfo(ctx, a.Operator, a.TaskAddr, a.TaskID)
	if err != nil || res == nil || !bytes.Equal(res.BlsSignature, a.Sig) || !bytes.Equal(res.TaskResponse, a.Response) || res.OperatorAddress != a.Operator || res.TaskId != a.TaskID {
		m.fail(r, "recorded-result-is-the-accepted-one", "stage-"+a.Stage, fmt.Sprintf("%s accepted but the recorded result of %s is %v (err %v)", tx.Op, key, res, err))
	}
}

func sameResult(a, b *avstypes.TaskResultInfo) bool {
	if a == nil || b == nil {
		return a == b
	}
	return a.Stage == b.Stage && bytes.Equal(a.BlsSignature, b.BlsSignature) && bytes.Equal(a.TaskResponse, b.TaskResponse) && a.TaskResponseHash == b.TaskResponseHash
}

func taskStr(t *avstypes.TaskInfo) string {
	if t == nil {
		return "<none>"
	}
	return fmt.Sprintf("#%d start %d response %d statistical %d challenge %d", t.TaskId, t.StartingEpoch, t.TaskResponsePeriod, t.TaskStatisticalPeriod, t.TaskChallengePeriod)
}

// checkRegistry: no task address is shared by two registered AVSs.
func (m *c20Monitor) checkRegistry(r *Run, ctx sdk.Context) {
	byTask := map[string]string{}
	byAddr := map[string]bool{}
	r.Node.App.AVSManagerKeeper.IterateAVSInfo(ctx, func(_ int64, info avstypes.AVSInfo) bool {
		la := strings.ToLower(info.AvsAddress)
		if byAddr[la] {
			m.fail(r, "avs-address-registered-at-most-once", "duplicate-record", "two AVS records for "+info.AvsAddress)
			return true
		}
		byAddr[la] = true
		if info.TaskAddr == "" {
			return false
		}
		lt := strings.ToLower(info.TaskAddr)
		if other, ok := byTask[lt]; ok {
			m.fail(r, "task-address-belongs-to-at-most-one-avs", "shared", fmt.Sprintf("task address %s is registered to both %s and %s", info.TaskAddr, other, info.AvsAddress))
			return true
		}
		byTask[lt] = info.AvsAddress
		return false
	})
}

// AfterBeginBlock: statistics of the tasks whose statistical period ended with an epoch that
// ended in this BeginBlock.
func (m *c20Monitor) AfterBeginBlock(r *Run, ctx sdk.Context) {
	h := ctx.BlockHeight()
	type ended struct {
		id string
		n  int64
	}
	var ends []ended
	for i := len(r.EpochCalls) - 1; i >= 0; i-- {
		c := r.EpochCalls[i]
		if c.Height != h {
			break
		}
		if c.Kind == "end" && c.Subscriber == 0 {
			ends = append(ends, ended{c.ID, c.Number})
		}
	}
	if len(ends) == 0 {
		return
	}
	app := r.Node.App
	k := app.AVSManagerKeeper
	var tasks []avstypes.TaskInfo
	k.IterateTaskAVSInfo(ctx, func(_ int64, t avstypes.TaskInfo) bool { tasks = append(tasks, t); return false })
	for _, e := range ends {
		groups := 0
		for i := range tasks {
			t := &tasks[i]
			avs := k.GetAVSInfoByTaskAddress(ctx, t.TaskContractAddress)
			if avs.AvsAddress == "" || avs.EpochIdentifier != e.id {
				continue
			}
			if int64(t.StartingEpoch)+int64(t.TaskResponsePeriod)+int64(t.TaskStatisticalPeriod) != e.n {
				continue
			}
			var signers []string
			for key := range m.results {
				parts := strings.Split(key, "|")
				if parts[1] == t.TaskContractAddress && parts[2] == fmt.Sprint(t.TaskId) {
					signers = append(signers, parts[0])
				}
			}
			sort.Strings(signers)
			tkey := fmt.Sprintf("%s|%d", t.TaskContractAddress, t.TaskId)
			if len(signers) == 0 {
				if len(t.SignedOperators) != 0 {
					m.fail(r, "epoch-end-statistics-reflect-accepted-results", "signers-without-results", fmt.Sprintf("task %s lists signers %v but no result was accepted", tkey, t.SignedOperators))
					return
				}
				// no result was accepted: every operator opted in at creation is a non-signer
				if len(t.OptInOperators) > 0 {
					want := append([]string{}, t.OptInOperators...)
					sort.Strings(want)
					got := append([]string{}, t.NoSignedOperators...)
					sort.Strings(got)
					if !equalStrings(got, want) {
						r.violateKeepGoing(m.Name(), "epoch-end-statistics-reflect-accepted-results", "task-without-results-not-evaluated", fmt.Sprintf("task %s reached the end of its statistical period (epoch %d of %q) without any accepted result: non-signers %v, expected all opted-in operators %v", tkey, e.n, e.id, t.NoSignedOperators, t.OptInOperators))
					}
				}
				continue
			}
			groups++
			m.StatTasks++
			m.statDone[tkey] = true
			if !equalStrings(t.SignedOperators, signers) {
				m.fail(r, "epoch-end-statistics-reflect-accepted-results", "signers", fmt.Sprintf("task %s at the end of epoch %d of %q: signers %v, accepted results from %v", tkey, e.n, e.id, t.SignedOperators, signers))
				return
			}
			isSigner := map[string]bool{}
			for _, s := range signers {
				isSigner[s] = true
			}
			var non []string
			for _, o := range t.OptInOperators {
				if !isSigner[o] {
					non = append(non, o)
				}
			}
			sort.Strings(non)
			gotNon := append([]string{}, t.NoSignedOperators...)
			sort.Strings(gotNon)
			if !equalStrings(gotNon, non) {
				m.fail(r, "epoch-end-statistics-reflect-accepted-results", "non-signers", fmt.Sprintf("task %s at the end of epoch %d of %q: non-signers %v, expected the opted-in operators %v without the signers %v = %v", tkey, e.n, e.id, t.NoSignedOperators, t.OptInOperators, signers, non))
				return
			}
			// power totals
			sum := sdkmath.LegacyZeroDec()
			var list []*avstypes.OperatorActivePowerInfo
			if t.OperatorActivePower != nil {
				list = t.OperatorActivePower.OperatorPowerList
			}
			if len(list) != len(signers) {
				m.fail(r, "epoch-end-statistics-reflect-accepted-results", "powers", fmt.Sprintf("task %s: %d power entries for %d signers", tkey, len(list), len(signers)))
				return
			}
			for i, s := range signers {
				want, err := app.OperatorKeeper.GetOperatorOptedUSDValue(ctx, avs.AvsAddress, s)
				if err != nil {
					continue
				}
				if list[i].OperatorAddr != s || !list[i].SelfActivePower.Equal(want.ActiveUSDValue) {
					m.fail(r, "epoch-end-statistics-reflect-accepted-results", "powers", fmt.Sprintf("task %s: power entry %d is %s=%s, signer %s has active value %s", tkey, i, list[i].OperatorAddr, list[i].SelfActivePower, s, want.ActiveUSDValue))
					return
				}
				sum = sum.Add(list[i].SelfActivePower)
			}
			total, err := app.OperatorKeeper.GetAVSUSDValue(ctx, avs.AvsAddress)
			if err == nil {
				if t.TaskTotalPower.IsNil() || !t.TaskTotalPower.Equal(total) {
					m.fail(r, "epoch-end-statistics-reflect-accepted-results", "total-power", fmt.Sprintf("task %s: recorded total power %s, AVS value %s", tkey, t.TaskTotalPower, total))
					return
				}
				// the recorded threshold is determined by the recorded totals of THIS task
				if !total.IsZero() && !sum.IsZero() {
					want := total.Quo(sum).Mul(sdk.NewDec(100)).BigInt().Uint64()
					if t.ActualThreshold != want {
						m.fail(r, "epoch-end-statistics-reflect-accepted-results", "threshold", fmt.Sprintf("task %s: recorded threshold %d is not the one determined by its own totals (total %s, signed %s -> %d)", tkey, t.ActualThreshold, total, sum, want))
						return
					}
				}
			}
			r.State("c20:stats")
		}
		if groups >= 2 {
			m.StatGroupsSameEpoch++
			r.Probe("c20_two_task_groups_end_together")
		}
	}
}

func equalStrings(a, b []string) bool {
	if len(a) != len(b) {
		return false
	}
	for i := range a {
		if a[i] != b[i] {
			return false
		}
	}
	return true
}

func c20Plan(p *PRNG, cfg Config, tier string) Plan {
	o := AVSGenOpts{}
	if tier == "thorough" {
		o.MinBlocks, o.MaxBlocks = 50, 140
	}
	return GenAVSPlan(p, cfg, o)
}

func init() {
	Register(&PropSpec{
		ID: "C20", Level: "exploration",
		Rule: "random interleavings of registerAVS/updateAVS/deregisterAVS (three AVS identities, own and foreign task addresses, existing and unknown epoch identifiers and assets, caller in / not in the owner list), registerBLSPublicKey (valid, foreign signature, malformed hash / key), operator opt-in/out through the AVS precompile and through operator messages (registered and unregistered operators, minimum self-delegation 0..1e6 USD and 2^63, 2^64-1; precompile calls naming an operator that did not sign, which must be refused), createTask with response / statistical / challenge periods 0-2 epochs, phase-one and phase-two MsgSubmitTaskResult from every operator (right and wrong stage, task id, signature key, payload, signer, address case incl. upper-case bech32 of the operator, a signature field that is present but empty on the wire) and challenges, while block times end the AVS epoch every 1-4 blocks (including exactly on a boundary and several epochs at once) and stake moves; every accepted operation is judged against the statement's conditions evaluated on the state before it (epoch windows from the stored task parameters and the epochs keeper, BLS verification recomputed, self-delegated value recomputed from the ledger with exact rationals), a refused submission must leave the record unchanged, task ids must be exactly 1..n after the n-th accepted creation, the opted-in snapshot of a created task must be the set of operators opted in at that moment, a challenge that reports success must be recorded, a task that reaches the end of its statistical period without any accepted result must list every operator of its snapshot as a non-signer, and in every BeginBlock that ends an epoch the statistics of each task whose statistical period ends there are compared with the monitor's own record of accepted results (signers, non-signers = opted-in at creation minus signers, per-signer power, total power, threshold determined by the task's own totals); non-trivial = >= 1 accepted phase-two result and >= 1 task statistics checked",
		Assumptions: []string{"AVS and task 'contracts' are externally owned accounts calling the precompile (the precompile only sees contract.CallerAddress)", "ActualThreshold is only checked to be the value determined by the task's own recorded totals, not against an independent definition of 'threshold'"},
		Real: []string{"x/avs keeper, msg server and epoch hook", "precompiles/avs", "x/operator opt-in/out and USD values", "prysm blst BLS signatures"},
		QuickRuns: 400, ThoroughRuns: 8000,
		GenConfig: func(p *PRNG, tier string) Config {
			c := SwarmConfig(p, SwarmOpts{EpochSecs: []int64{15, 20, 30}, MinOps: 2, MaxOps: 4})
			c.HugeAmounts = false
			return c
		},
		GenPlan:  c20Plan,
		Monitors: func() []Monitor { return []Monitor{&c20Monitor{}} },
		NonTrivial: func(r *Run) bool {
			m := r.Mons[0].(*c20Monitor)
			return m.StatTasks >= 1 && r.Stats.States["c20:phase2"] >= 1
		},
	})
}
