package sim

import (
	"fmt"
	"sort"
	"strings"
	"time"

	sdk "github.com/cosmos/cosmos-sdk/types"
)

// ---------------------------------------------------------------------------
// C15 — epoch clock
// ---------------------------------------------------------------------------

// epochModel is the reference model of one identifier, written from the statement.
type epochModel struct {
	ID          string
	Start       time.Time
	Dur         time.Duration
	Started     bool
	N           int64
	CurStart    time.Time
	StartHeight int64
}

// tick applies a block with time t; returns (ended number or 0, started number or 0).
func (m *epochModel) tick(t time.Time, h int64) (int64, int64) {
	if t.Before(m.Start) {
		return 0, 0
	}
	if !m.Started {
		m.Started, m.N, m.CurStart, m.StartHeight = true, 1, m.Start, h
		return 0, 1
	}
	if t.After(m.CurStart.Add(m.Dur)) {
		ended := m.N
		m.CurStart = m.CurStart.Add(m.Dur)
		m.N++
		m.StartHeight = h
		return ended, m.N
	}
	return 0, 0
}

var expectedSubscribers = []string{
	"x/feedistribution/keeper.EpochsHooksWrapper",
	"x/operator/keeper.EpochsHooksWrapper",
	"x/dogfood/keeper.EpochsHooksWrapper",
	"x/exomint/keeper.EpochsHooksWrapper",
	"x/avs/keeper.EpochsHooksWrapper",
}

type c15Monitor struct {
	BaseMonitor
	models   []*epochModel
	seenCall int
	maxN     int64
	catchups int
}

func (m *c15Monitor) Name() string { return "epochs" }

func (m *c15Monitor) Init(r *Run) {
	m.models = nil
	for _, e := range r.Cfg.Epochs {
		em := &epochModel{ID: e.ID, Start: r.W.GenesisTime.Add(time.Duration(e.StartOff) * time.Second), Dur: time.Duration(e.DurSec) * time.Second}
		if e.Started {
			em.Started, em.N = true, e.CurrentEpoch
			em.CurStart = em.Start.Add(time.Duration(e.CurrentEpoch-1) * em.Dur)
		}
		m.models = append(m.models, em)
	}
	// the store iterates identifiers in byte order
	sort.Slice(m.models, func(i, j int) bool { return m.models[i].ID < m.models[j].ID })
	// subscriber order, by concrete type
	if len(r.SubscriberTypes) != len(expectedSubscribers) {
		r.Violate(m.Name(), "subscriber-order", "count", fmt.Sprintf("subscribers %v", r.SubscriberTypes))
		return
	}
	for i, s := range r.SubscriberTypes {
		if !strings.HasSuffix(s, expectedSubscribers[i]) {
			r.Violate(m.Name(), "subscriber-order", fmt.Sprintf("pos%d", i), fmt.Sprintf("subscribers %v, want order distribution, operator, dogfood, mint, AVS", r.SubscriberTypes))
			return
		}
	}
}

func (m *c15Monitor) AfterBeginBlock(r *Run, ctx sdk.Context) {
	h := ctx.BlockHeight()
	t := ctx.BlockTime()
	// expected calls of this block
	type call struct {
		kind string
		id   string
		n    int64
	}
	var want []call
	for _, em := range m.models {
		before := em.CurStart
		ended, started := em.tick(t, h)
		if ended > 0 {
			want = append(want, call{"end", em.ID, ended})
			if t.After(before.Add(2 * em.Dur)) {
				m.catchups++
				r.Probe("c15_catchup_block")
			}
		}
		if started > 0 {
			want = append(want, call{"start", em.ID, started})
			if started > m.maxN {
				m.maxN = started
			}
		}
		if em.Started && t.Equal(em.CurStart.Add(em.Dur)) {
			r.Probe("c15_time_exactly_on_boundary")
		}
	}
	got := r.EpochCalls[m.seenCall:]
	m.seenCall = len(r.EpochCalls)
	nsub := len(expectedSubscribers)
	if len(got) != len(want)*nsub {
		r.Violate(m.Name(), "notifications-exactly-once", "count", fmt.Sprintf("height %d time %s: %d hook calls recorded, model expects %d notifications x %d subscribers; want=%v got=%v", h, t, len(got), len(want), nsub, want, got))
		return
	}
	for i, w := range want {
		for s := 0; s < nsub; s++ {
			g := got[i*nsub+s]
			if g.Kind != w.kind || g.ID != w.id || g.Number != w.n || g.Subscriber != s || g.Height != h {
				r.Violate(m.Name(), "notifications-in-order", w.kind, fmt.Sprintf("height %d: call %d is %+v, model expects %s(%s,%d) to subscriber %d", h, i*nsub+s, g, w.kind, w.id, w.n, s))
				return
			}
		}
	}
	// state
	infos := r.Node.App.EpochsKeeper.AllEpochInfos(ctx)
	if len(infos) != len(m.models) {
		r.Violate(m.Name(), "epoch-info-matches-model", "count", fmt.Sprintf("%d infos, %d identifiers", len(infos), len(m.models)))
		return
	}
	for i, em := range m.models {
		in := infos[i]
		if in.Identifier != em.ID {
			r.Violate(m.Name(), "epoch-info-matches-model", "identifier", fmt.Sprintf("info %d is %s want %s", i, in.Identifier, em.ID))
			return
		}
		if !em.Started {
			if in.EpochCountingStarted {
				r.Violate(m.Name(), "epoch-info-matches-model", "started-early", fmt.Sprintf("%s started before its start time %s at block time %s", em.ID, em.Start, t))
				return
			}
			continue
		}
		if !in.EpochCountingStarted || in.CurrentEpoch != em.N {
			r.Violate(m.Name(), "epoch-number", "number", fmt.Sprintf("height %d time %s: %s has number %d (started=%v), model %d", h, t, em.ID, in.CurrentEpoch, in.EpochCountingStarted, em.N))
			return
		}
		if !in.CurrentEpochStartTime.Equal(em.CurStart) {
			r.Violate(m.Name(), "epoch-start-time", "start-time", fmt.Sprintf("height %d: %s epoch %d start %s, model %s", h, em.ID, em.N, in.CurrentEpochStartTime, em.CurStart))
			return
		}
		if em.StartHeight != 0 && in.CurrentEpochStartHeight != em.StartHeight {
			r.Violate(m.Name(), "epoch-start-height", "start-height", fmt.Sprintf("height %d: %s epoch %d start height %d, model %d", h, em.ID, em.N, in.CurrentEpochStartHeight, em.StartHeight))
			return
		}
	}
	r.State(fmt.Sprintf("ticks=%d", len(want)))
}

func (m *c15Monitor) Finish(r *Run) {
	if len(r.EpochCalls) != m.seenCall {
		r.Violate(m.Name(), "notifications-exactly-once", "outside-beginblock", fmt.Sprintf("%d hook calls happened outside BeginBlock", len(r.EpochCalls)-m.seenCall))
	}
}

func c15Config(p *PRNG, tier string) Config {
	c := SwarmConfig(p, SwarmOpts{})
	// custom identifiers: durations from 1 s to days, start times past / now / future, some mid-count
	durs := []int64{1, 2, 5, 7, 30, 60, 3600, 86400, 3 * 86400}
	n := p.Range(1, 3)
	c.Epochs = nil
	for i := 0; i < n; i++ {
		e := EpochCfg{ID: fmt.Sprintf("e%d", i), DurSec: durs[p.Intn(len(durs))]}
		switch p.Intn(4) {
		case 0:
			e.StartOff = 0
		case 1:
			e.StartOff = -int64(p.Range(1, 200))
		case 2:
			e.StartOff = int64(p.Range(1, 120))
		case 3:
			e.StartOff = -int64(p.Range(1, 20)) * e.DurSec
		}
		if p.Chance(1, 4) {
			e.Started = true
			e.CurrentEpoch = int64(p.Range(1, 50))
			if e.StartOff > 0 {
				e.StartOff = -e.StartOff
			}
		} else if p.Chance(1, 3) {
			e.CurrentEpoch = int64(p.Range(1, 50)) // not started, but the genesis entry carries a number
		}
		c.Epochs = append(c.Epochs, e)
	}
	// identifiers whose names sort around the others
	if p.Chance(1, 3) {
		c.Epochs = append(c.Epochs, EpochCfg{ID: "a", DurSec: durs[p.Intn(len(durs))], StartOff: int64(p.Range(-50, 50))})
	}
	pick := func() string { return c.Epochs[p.Intn(len(c.Epochs))].ID }
	c.DogfoodEpoch, c.MintEpoch, c.DistrEpoch = pick(), pick(), pick()
	return c
}

func c15Plan(p *PRNG, cfg Config, tier string) Plan {
	nb := p.Range(10, 60)
	if tier == "thorough" {
		nb = p.Range(20, 150)
	}
	// generator-side clock (for steering only): aim some blocks exactly at boundaries
	type g struct {
		start, cur time.Time
		dur        time.Duration
		started    bool
	}
	t0 := time.Unix(1704067200, 0).UTC()
	var gs []*g
	for _, e := range cfg.Epochs {
		x := &g{start: t0.Add(time.Duration(e.StartOff) * time.Second), dur: time.Duration(e.DurSec) * time.Second}
		if e.Started {
			x.started = true
			x.cur = x.start.Add(time.Duration(e.CurrentEpoch-1) * x.dur)
		}
		gs = append(gs, x)
	}
	now := t0
	var plan Plan
	for i := 0; i < nb; i++ {
		var dt time.Duration
		x := gs[p.Intn(len(gs))]
		switch p.Intn(8) {
		case 0:
			dt = 0
		case 1:
			dt = 1
		case 2:
			dt = time.Duration(p.Range(1, 999)) * time.Millisecond
		case 3: // exactly on the next boundary of x
			var b time.Time
			if !x.started {
				b = x.start
			} else {
				b = x.cur.Add(x.dur)
			}
			if b.After(now) {
				dt = b.Sub(now)
			} else {
				dt = 1
			}
		case 4: // one nanosecond past the boundary
			var b time.Time
			if !x.started {
				b = x.start
			} else {
				b = x.cur.Add(x.dur)
			}
			if b.After(now) {
				dt = b.Sub(now) + 1
			} else {
				dt = time.Second
			}
		case 5: // multi-duration gap (chain downtime)
			dt = x.dur*time.Duration(p.Range(2, 6)) + time.Duration(p.Range(0, 999))*time.Millisecond
		case 6:
			dt = x.dur / time.Duration(p.Range(2, 5))
		default:
			dt = time.Duration(p.Range(1, 20)) * time.Second
		}
		if dt > 40*24*time.Hour {
			dt = 40 * 24 * time.Hour
		}
		now = now.Add(dt)
		for _, y := range gs {
			if now.Before(y.start) {
				continue
			}
			if !y.started {
				y.started, y.cur = true, y.start
			} else if now.After(y.cur.Add(y.dur)) {
				y.cur = y.cur.Add(y.dur)
			}
		}
		b := Block{DtNs: int64(dt), Prop: p.Intn(4)}
		if p.Chance(1, 10) {
			b.Ops = append(b.Ops, Op{K: "send", A: p.Intn(3), C: p.Intn(3), Amt: "=1000"})
		}
		plan.Blocks = append(plan.Blocks, b)
	}
	return plan
}

func init() {
	Register(&PropSpec{
		ID: "C15", Level: "exploration",
		Rule: "case = (1-4 epoch identifiers with random duration 1s..3d, start time past/now/future, optional mid-count genesis entry) (a third of the not-started entries carry a stale non-zero number in the genesis file) x (10-150 block-time steps drawn from {0, +1ns, sub-second, exactly on a boundary, boundary+1ns, multi-duration gap, fraction of duration, seconds}); real app with real subscribers wrapped by recorders; non-trivial = some identifier advanced >= 3 epochs AND at least one catch-up block or boundary-exact block time occurred; distinct by hash of (config, plan)",
		Assumptions: []string{"block times are non-decreasing (CometBFT guarantees BFT time monotonicity)", "the epoch model is the reading of the statement: tick iff blockTime > currentStart+duration, one tick per block"},
		Real:        []string{"x/epochs BeginBlocker and all five real epoch subscribers, wrapped in place by recording decorators"},
		QuickRuns:   600, ThoroughRuns: 12000,
		GenConfig: c15Config, GenPlan: c15Plan,
		Monitors: func() []Monitor { return []Monitor{&c15Monitor{}} },
		NonTrivial: func(r *Run) bool {
			m := r.Mons[0].(*c15Monitor)
			return m.maxN >= 3 && (m.catchups > 0 || r.Stats.Probes["c15_time_exactly_on_boundary"] > 0)
		},
	})
}
