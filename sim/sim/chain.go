package sim

import (
	"bytes"
	"fmt"
	"sort"
	"time"

	abci "github.com/cometbft/cometbft/abci/types"
	"github.com/cometbft/cometbft/crypto/tmhash"
	tmproto "github.com/cometbft/cometbft/proto/tendermint/types"
	tmversion "github.com/cometbft/cometbft/proto/tendermint/version"
	tmtypes "github.com/cometbft/cometbft/types"
	"github.com/cometbft/cometbft/version"
)

// Evidence is an equivocation the stub reports in a block.
type Evidence struct {
	ConsAddr []byte
	Height   int64
	Time     time.Time
	Power    int64
	Total    int64
}

// BlockRecord is the canonical content of a block, enough to re-execute it on a replica.
type BlockRecord struct {
	Header   tmproto.Header
	Height   int64
	Time     time.Time
	Proposer []byte
	Votes    []abci.VoteInfo
	Evidence []Evidence
	Txs      [][]byte
	// results observed on the primary
	AppHash    []byte
	TxResults  []abci.ResponseDeliverTx
	ValUpdates []abci.ValidatorUpdate
	ConsParams *tmproto.ConsensusParams
	LastAppHash []byte
}

// Chain is the consensus-engine stub: it owns time, the validator-set history (real
// CometBFT ValidatorSet arithmetic with the H+2 rule), votes and evidence.
type Chain struct {
	W          *World
	Height     int64     // last committed height
	Time       time.Time // time of last committed block
	AppHash    []byte
	ValSets    map[int64]*tmtypes.ValidatorSet // set that validates block h
	ValTimes   map[int64]time.Time             // block times
	CurHeader  tmproto.Header
	Blocks     []*BlockRecord
	InitResp   abci.ResponseInitChain
}

func NewChain(w *World) *Chain {
	return &Chain{W: w, ValSets: map[int64]*tmtypes.ValidatorSet{}, ValTimes: map[int64]time.Time{}}
}

// ApplyInit records the genesis validator set returned by InitChain.
func (c *Chain) ApplyInit(res abci.ResponseInitChain) error {
	c.InitResp = res
	ups, err := tmtypes.PB2TM.ValidatorUpdates(res.Validators)
	if err != nil {
		return fmt.Errorf("InitChain validator updates invalid: %w", err)
	}
	if len(ups) == 0 {
		return fmt.Errorf("InitChain returned an empty validator set")
	}
	vs := tmtypes.NewValidatorSet(ups)
	c.ValSets[1] = vs
	c.ValSets[2] = vs.CopyIncrementProposerPriority(1)
	c.Height = 0
	c.Time = c.W.GenesisTime
	c.AppHash = res.AppHash
	c.CurHeader = tmproto.Header{ChainID: c.W.Cfg.ChainID, Height: 0, Time: c.W.GenesisTime}
	return nil
}

// ValSetAt returns the set validating block h (nil if unknown).
func (c *Chain) ValSetAt(h int64) *tmtypes.ValidatorSet { return c.ValSets[h] }

// SortedVals returns the validators of a set sorted by address (the set's own order depends
// on power; a stable order is needed for index-based plans).
func SortedVals(vs *tmtypes.ValidatorSet) []*tmtypes.Validator {
	out := append([]*tmtypes.Validator{}, vs.Validators...)
	sort.Slice(out, func(i, j int) bool { return bytes.Compare(out[i].Address, out[j].Address) < 0 })
	return out
}

// NextHeader builds the header for the next block.
func (c *Chain) NextHeader(dt time.Duration, proposerIdx int) tmproto.Header {
	h := c.Height + 1
	vs := c.ValSets[h]
	var prop []byte
	if vs != nil && len(vs.Validators) > 0 {
		vals := SortedVals(vs)
		prop = vals[((proposerIdx%len(vals))+len(vals))%len(vals)].Address
	}
	var vh, nvh []byte
	if vs != nil {
		vh = vs.Hash()
	}
	if nvs := c.ValSets[h+1]; nvs != nil {
		nvh = nvs.Hash()
	}
	return tmproto.Header{
		Version:            tmversion.Consensus{Block: version.BlockProtocol},
		ChainID:            c.W.Cfg.ChainID,
		Height:             h,
		Time:               c.Time.Add(dt).UTC(),
		ProposerAddress:    prop,
		AppHash:            c.AppHash,
		ValidatorsHash:     vh,
		NextValidatorsHash: nvh,
		LastBlockId:        tmproto.BlockID{Hash: tmhash.Sum([]byte(fmt.Sprintf("block-%d", c.Height)))},
		DataHash:           tmhash.Sum(nil),
	}
}

// Votes builds LastCommitInfo for block h: the members of the set that validated h-1;
// absent is a set of consensus addresses (as string(bytes)) that did not sign.
func (c *Chain) Votes(h int64, absent map[string]bool) []abci.VoteInfo {
	if h <= 1 {
		return nil
	}
	vs := c.ValSets[h-1]
	if vs == nil {
		return nil
	}
	var out []abci.VoteInfo
	for _, v := range vs.Validators {
		out = append(out, abci.VoteInfo{
			Validator:       abci.Validator{Address: v.Address, Power: v.VotingPower},
			SignedLastBlock: !absent[string(v.Address)],
		})
	}
	return out
}

// BeginBlockRequest builds the request for a block record.
func (c *Chain) BeginBlockRequest(hdr tmproto.Header, votes []abci.VoteInfo, evs []Evidence) abci.RequestBeginBlock {
	var mis []abci.Misbehavior
	for _, e := range evs {
		mis = append(mis, abci.Misbehavior{
			Type:             abci.MisbehaviorType_DUPLICATE_VOTE,
			Validator:        abci.Validator{Address: e.ConsAddr, Power: e.Power},
			Height:           e.Height,
			Time:             e.Time,
			TotalVotingPower: e.Total,
		})
	}
	return abci.RequestBeginBlock{
		Hash:                tmhash.Sum([]byte(fmt.Sprintf("block-%d", hdr.Height))),
		Header:              hdr,
		LastCommitInfo:      abci.CommitInfo{Round: 0, Votes: votes},
		ByzantineValidators: mis,
	}
}

// ApplyEndBlock feeds the validator updates to the real CometBFT validator set (H+2 rule).
// An error is what would panic a real consensus engine.
func (c *Chain) ApplyEndBlock(h int64, ups []abci.ValidatorUpdate) error {
	next := c.ValSets[h+1]
	if next == nil {
		return fmt.Errorf("stub: no validator set for height %d", h+1)
	}
	nn := next.CopyIncrementProposerPriority(1)
	if len(ups) > 0 {
		tmUps, err := tmtypes.PB2TM.ValidatorUpdates(ups)
		if err != nil {
			return fmt.Errorf("validator updates rejected by PB2TM at height %d: %w", h, err)
		}
		// the same validation CometBFT's state execution performs
		for _, u := range tmUps {
			if u.VotingPower < 0 {
				return fmt.Errorf("validator update with negative power at height %d", h)
			}
		}
		if err := nn.UpdateWithChangeSet(tmUps); err != nil {
			return fmt.Errorf("validator updates rejected by ValidatorSet at height %d: %w", h, err)
		}
		if nn.Size() == 0 {
			return fmt.Errorf("validator set would become empty at height %d", h)
		}
	}
	c.ValSets[h+2] = nn
	return nil
}

// Committed advances the stub after a successful commit.
func (c *Chain) Committed(hdr tmproto.Header, appHash []byte) {
	c.Height = hdr.Height
	c.Time = hdr.Time
	c.ValTimes[hdr.Height] = hdr.Time
	c.AppHash = appHash
}
