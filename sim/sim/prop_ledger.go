package sim

import (
	"fmt"
	"math/big"
	"reflect"
	"sort"
	"strings"

	sdkmath "cosmossdk.io/math"
	abci "github.com/cometbft/cometbft/abci/types"
	sdk "github.com/cosmos/cosmos-sdk/types"
	"github.com/ethereum/go-ethereum/common/hexutil"

	assetstypes "github.com/ExocoreNetwork/exocore/x/assets/types"
	delegationtypes "github.com/ExocoreNetwork/exocore/x/delegation/types"
)

func hasEvent(evs []abci.Event, typ string) bool {
	for _, e := range evs {
		if e.Type == typ {
			return true
		}
	}
	return false
}

func ratOf(d sdkmath.LegacyDec) *big.Rat {
	return new(big.Rat).SetFrac(d.BigInt(), new(big.Int).Exp(big.NewInt(10), big.NewInt(18), nil))
}

// redeemable = floor(share * T / S) in exact rationals (the model's view of a position).
func redeemable(share, S sdkmath.LegacyDec, T sdkmath.Int) *big.Int {
	if S.IsZero() {
		return new(big.Int)
	}
	q := new(big.Rat).Mul(ratOf(share), new(big.Rat).SetInt(T.BigInt()))
	q.Quo(q, ratOf(S))
	return new(big.Int).Quo(q.Num(), q.Denom())
}

// ---------------------------------------------------------------------------
// C01 — conservation
// ---------------------------------------------------------------------------

type c01Monitor struct {
	BaseMonitor
	prev      *Ledger
	deposited map[string]*big.Int // asset -> genesis total + deposits - withdrawals
	completed int
	slashes   int
	sharedPoolSlash bool
}

func (m *c01Monitor) Name() string { return "conservation" }

func (m *c01Monitor) AfterInit(r *Run) {
	ctx := r.Node.DeliverCtx(r.Chain)
	m.prev = r.Ledger(ctx)
	m.deposited = map[string]*big.Int{}
	for id, t := range m.prev.Totals {
		m.deposited[id] = new(big.Int).Set(t.BigInt())
	}
	m.nonNeg(r, m.prev)
}

func (m *c01Monitor) assets(a, b *Ledger) []string {
	set := map[string]int{}
	for k := range a.Totals {
		set[k] = 1
	}
	for k := range b.Totals {
		set[k] = 1
	}
	return sortedKeys(set)
}

func (m *c01Monitor) nonNeg(r *Run, l *Ledger) {
	for _, k := range sortedKeysAny(l.Stakers) {
		s := l.Stakers[k]
		if s.TotalDepositAmount.IsNegative() || s.WithdrawableAmount.IsNegative() || s.PendingUndelegationAmount.IsNegative() {
			r.Violate(m.Name(), "non-negative", "staker", fmt.Sprintf("staker %s: %+v", k, s))
			return
		}
	}
	for _, k := range sortedKeysAny(l.Pools) {
		o := l.Pools[k]
		if o.TotalAmount.IsNegative() || o.PendingUndelegationAmount.IsNegative() || o.TotalShare.IsNegative() || o.OperatorShare.IsNegative() {
			r.Violate(m.Name(), "non-negative", "pool", fmt.Sprintf("pool %s: %+v", k, o))
			return
		}
	}
	for _, k := range sortedKeysAny(l.Records) {
		rec := l.Records[k]
		if rec.Amount.IsNegative() || rec.ActualCompletedAmount.IsNegative() {
			r.Violate(m.Name(), "non-negative", "record", fmt.Sprintf("record %s: %+v", k, rec))
			return
		}
	}
	for _, k := range sortedKeysAny(l.Deleg) {
		d := l.Deleg[k]
		if d.UndelegatableShare.IsNegative() || d.WaitUndelegationAmount.IsNegative() {
			r.Violate(m.Name(), "non-negative", "delegation", fmt.Sprintf("delegation %s: %+v", k, d))
			return
		}
	}
	// native escrow
	_, pools, owed := l.AssetSum(assetstypes.ExocoreAssetID)
	need := new(big.Int).Add(pools, owed)
	if l.Escrow.BigInt().Cmp(need) < 0 {
		r.Violate(m.Name(), "native-escrow-covers-pools-and-pending", "escrow", fmt.Sprintf("escrow %s < pools %s + pending %s", l.Escrow, pools, owed))
	}
}

// step checks the change of every asset's sum against the allowed delta.
// allowed[asset] = exact expected delta; slashLike => delta may be anything <= 0.
func (m *c01Monitor) step(r *Run, cur *Ledger, allowed map[string]*big.Int, slashLike bool, what string) {
	for _, a := range m.assets(m.prev, cur) {
		if a == assetstypes.ExocoreAssetID {
			continue // native token: no withdrawable leg; covered by the escrow rule
		}
		d := new(big.Int).Sub(cur.Total(a), m.prev.Total(a))
		want := allowed[a]
		if want == nil {
			want = new(big.Int)
		}
		if slashLike {
			// a slash may only take away: no pool and no pending payout may grow, and no
			// withdrawable balance may move at all
			for _, k := range sortedKeysAny(cur.Pools) {
				if p, ok := m.prev.Pools[k]; ok && strings.HasSuffix(k, "/"+a) && cur.Pools[k].TotalAmount.GT(p.TotalAmount) {
					r.Violate(m.Name(), "only-deposits-increase-the-sum", what+":pool-grew", fmt.Sprintf("%s: pool %s grew %s -> %s during a slashing step", what, k, p.TotalAmount, cur.Pools[k].TotalAmount))
					return
				}
			}
			for _, k := range cur.RecOrder {
				if p, ok := m.prev.Records[k]; ok && p.AssetID == a && cur.Records[k].ActualCompletedAmount.GT(p.ActualCompletedAmount) {
					r.Violate(m.Name(), "only-deposits-increase-the-sum", what+":pending-payout-grew", fmt.Sprintf("%s: amount owed by pending undelegation %s grew %s -> %s during a slashing step", what, k, p.ActualCompletedAmount, cur.Records[k].ActualCompletedAmount))
					return
				}
			}
			for _, k := range sortedKeysAny(cur.Stakers) {
				if p, ok := m.prev.Stakers[k]; ok && strings.HasSuffix(k, "/"+a) && !cur.Stakers[k].WithdrawableAmount.Equal(p.WithdrawableAmount) {
					r.Violate(m.Name(), "sum-changes-only-by-flows", what+":withdrawable-moved", fmt.Sprintf("%s: withdrawable balance %s moved %s -> %s during a slashing step", what, k, p.WithdrawableAmount, cur.Stakers[k].WithdrawableAmount))
					return
				}
			}
			if d.Sign() > 0 {
				r.Violate(m.Name(), "only-deposits-increase-the-sum", what, fmt.Sprintf("%s: asset %s sum changed by %s (>0) during %s", what, a, d, r.phase))
				return
			}
			if d.Sign() < 0 {
				m.slashes++
			}
			continue
		}
		if d.Cmp(want) != 0 {
			pw, pp, pu := m.prev.AssetSum(a)
			cw, cp, cu := cur.AssetSum(a)
			r.Violate(m.Name(), "sum-changes-only-by-flows", what, fmt.Sprintf("%s: asset %s sum changed by %s, allowed %s (withdrawable %s->%s pools %s->%s pending-owed %s->%s)", what, a, d, want, pw, cw, pp, cp, pu, cu))
			return
		}
	}
	// published staking totals
	for _, a := range sortedKeysAny(cur.Totals) {
		if a == assetstypes.ExocoreAssetID || r.isNST(a) {
			continue
		}
		if dep := m.deposited[a]; dep != nil && cur.Totals[a].BigInt().Cmp(dep) != 0 {
			r.Violate(m.Name(), "staking-total-equals-deposits-minus-withdrawals", what, fmt.Sprintf("asset %s: published total %s, deposits-withdrawals %s", a, cur.Totals[a], dep))
			return
		}
	}
	m.nonNeg(r, cur)
	m.prev = cur
}

func (r *Run) isNST(assetID string) bool {
	for i, a := range r.Cfg.Assets {
		if a.NST && r.W.AssetIDs[i] == assetID {
			return true
		}
	}
	return false
}

func (m *c01Monitor) AfterBeginBlock(r *Run, ctx sdk.Context) {
	cur := r.Ledger(ctx)
	slashed := hasEvent(r.LastBegin.Events, "slash")
	if slashed {
		r.Probe("beginblock_slash_event")
	}
	m.step(r, cur, nil, slashed, "begin-block")
}

func (m *c01Monitor) AfterTx(r *Run, ctx sdk.Context, tx *TxResult) {
	cur := r.Ledger(ctx)
	allowed := map[string]*big.Int{}
	if tx.OK && tx.Amount != nil && tx.Note != "replay" {
		switch tx.Op.K {
		case "dep":
			allowed[tx.AssetID] = new(big.Int).Set(tx.Amount)
		case "wd":
			allowed[tx.AssetID] = new(big.Int).Neg(tx.Amount)
		}
	} else if tx.OK && tx.Note == "replay" {
		// a replayed transaction that is accepted again is a flow like the original
		switch tx.Method {
		case "depositLST", "depositNST":
			allowed[tx.AssetID] = new(big.Int).Set(tx.Amount)
		case "withdrawLST", "withdrawNST":
			allowed[tx.AssetID] = new(big.Int).Neg(tx.Amount)
		}
	}
	for a, d := range allowed {
		if m.deposited[a] == nil {
			m.deposited[a] = new(big.Int)
		}
		m.deposited[a].Add(m.deposited[a], d)
	}
	what := "tx:" + tx.Op.K
	if !tx.OK {
		what += ":failed"
	}
	m.step(r, cur, allowed, false, what)
}

// nstLowerBound: a negative adjustment -a taken from delegated shares goes through 18-digit fixed
// point share arithmetic (proportion = a / delegated, share * proportion, shares -> tokens), so the
// amount actually removed may differ from a by a relative 1e-15 (observed: 79 base units on
// 1.8e20); what is exact is that the sum moves with the recorded total deposit.
func nstLowerBound(a *big.Int) *big.Int {
	slack := new(big.Int).Quo(new(big.Int).Abs(a), big.NewInt(1_000_000_000_000_000))
	slack.Add(slack, big.NewInt(1000))
	return new(big.Int).Sub(a, slack)
}

// AfterDirect: a direct slash call behaves like the slashing part of BeginBlock.
func (m *c01Monitor) AfterDirect(r *Run, ctx sdk.Context, op Op) {
	if op.K == "kslash" {
		m.step(r, r.Ledger(ctx), nil, true, "direct-slash")
	}
	if op.K == "nstupd" && r.LastNST != nil {
		up := r.LastNST
		cur := r.Ledger(ctx)
		key := up.StakerID + "/" + up.AssetID
		d := new(big.Int).Sub(cur.Total(up.AssetID), m.prev.Total(up.AssetID))
		depOf := func(l *Ledger) *big.Int {
			if s, ok := l.Stakers[key]; ok && !s.TotalDepositAmount.IsNil() {
				return s.TotalDepositAmount.BigInt()
			}
			return new(big.Int)
		}
		dep := new(big.Int).Sub(depOf(cur), depOf(m.prev))
		switch {
		case up.Err != nil:
			m.step(r, cur, nil, false, "nst-adjustment:refused")
			return
		case d.Cmp(dep) != 0:
			r.Violate(m.Name(), "sum-changes-only-by-flows", "nst-adjustment:sum-vs-recorded-deposit", fmt.Sprintf("native-restaking adjustment of %s for %s: the asset's sum changed by %s but the staker's recorded total deposit by %s", up.Amount, key, d, dep))
			return
		case up.Amount.Sign() > 0 && d.Cmp(up.Amount) != 0:
			r.Violate(m.Name(), "sum-changes-only-by-flows", "nst-adjustment:positive", fmt.Sprintf("positive native-restaking adjustment of %s for %s changed the sum by %s", up.Amount, key, d))
			return
		case up.Amount.Sign() < 0 && (d.Sign() > 0 || d.Cmp(nstLowerBound(up.Amount)) < 0):
			r.Violate(m.Name(), "sum-changes-only-by-flows", "nst-adjustment:negative", fmt.Sprintf("negative native-restaking adjustment of %s for %s changed the sum by %s", up.Amount, key, d))
			return
		}
		r.Probe("c01_nst_adjustment_checked")
		if up.Amount.Sign() < 0 && len(m.prev.Records) > 0 {
			r.Probe("c01_nst_decrease_with_pending_undelegations")
		}
		m.step(r, cur, map[string]*big.Int{up.AssetID: d}, false, "nst-adjustment")
	}
}

func (m *c01Monitor) AfterEndBlock(r *Run, ctx sdk.Context, _ abci.ResponseEndBlock) {
	cur := r.Ledger(ctx)
	if len(cur.Records) < len(m.prev.Records) {
		m.completed += len(m.prev.Records) - len(cur.Records)
	}
	m.step(r, cur, nil, false, "end-block")
}

// ---------------------------------------------------------------------------
// C02 — share accounting
// ---------------------------------------------------------------------------

type roundTrip struct {
	x       *big.Int
	touched bool
}

type c02Monitor struct {
	BaseMonitor
	pre    *Ledger
	trips  map[string]*roundTrip // staker/asset/operator -> open "delegate x" into an empty position
	Trips  int
	Skewed int
}

func (m *c02Monitor) Name() string { return "shares" }

func (m *c02Monitor) AfterInit(r *Run) {
	m.trips = map[string]*roundTrip{}
	m.check(r, r.Ledger(r.Node.DeliverCtx(r.Chain)), "genesis")
}

func (m *c02Monitor) check(r *Run, l *Ledger, what string) {
	sum := map[string]sdkmath.LegacyDec{}
	self := map[string]sdkmath.LegacyDec{}
	members := map[string][]string{}
	for _, k := range sortedKeysAny(l.Deleg) {
		parts := strings.Split(k, "/")
		if len(parts) != 3 {
			continue
		}
		staker, asset, op := parts[0], parts[1], parts[2]
		pk := op + "/" + asset
		d := l.Deleg[k]
		if _, ok := sum[pk]; !ok {
			sum[pk], self[pk] = sdkmath.LegacyZeroDec(), sdkmath.LegacyZeroDec()
		}
		sum[pk] = sum[pk].Add(d.UndelegatableShare)
		if l.Assoc[staker] == op {
			self[pk] = self[pk].Add(d.UndelegatableShare)
		}
		if !d.UndelegatableShare.IsZero() {
			members[pk] = append(members[pk], staker)
		}
	}
	for _, pk := range sortedKeysAny(l.Pools) {
		p := l.Pools[pk]
		s, ok := sum[pk]
		if !ok {
			s = sdkmath.LegacyZeroDec()
		}
		if !p.TotalShare.Equal(s) {
			r.Violate(m.Name(), "total-share-equals-sum-of-delegator-shares", what, fmt.Sprintf("%s: pool %s TotalShare %s, sum of delegator shares %s", what, pk, p.TotalShare, s))
			return
		}
		sf, ok := self[pk]
		if !ok {
			sf = sdkmath.LegacyZeroDec()
		}
		if !p.OperatorShare.Equal(sf) {
			r.Violate(m.Name(), "self-share-equals-associated-delegators", what, fmt.Sprintf("%s: pool %s OperatorShare %s, sum over associated delegators %s", what, pk, p.OperatorShare, sf))
			return
		}
		if p.TotalAmount.IsZero() && !p.TotalShare.IsZero() {
			r.Violate(m.Name(), "zero-pool-has-zero-shares", what, fmt.Sprintf("%s: pool %s amount 0 but TotalShare %s", what, pk, p.TotalShare))
			return
		}
		want := append([]string{}, members[pk]...)
		sort.Strings(want)
		got := append([]string{}, l.StakerLists[pk]...)
		sort.Strings(got)
		if !reflect.DeepEqual(want, got) && !(len(want) == 0 && len(got) == 0) {
			r.Violate(m.Name(), "delegator-list-is-nonzero-share-set", what, fmt.Sprintf("%s: pool %s list %v, non-zero share holders %v", what, pk, got, want))
			return
		}
		if !p.TotalShare.IsZero() && !sdkmath.LegacyNewDecFromInt(p.TotalAmount).Equal(p.TotalShare) {
			m.Skewed++
		}
	}
	// a delegation entry for a pool that does not exist must hold no share
	for pk, s := range sum {
		if _, ok := l.Pools[pk]; !ok && !s.IsZero() {
			r.Violate(m.Name(), "total-share-equals-sum-of-delegator-shares", what, fmt.Sprintf("%s: shares %s recorded for missing pool %s", what, s, pk))
			return
		}
	}
}

func (m *c02Monitor) AfterBeginBlock(r *Run, ctx sdk.Context) {
	if hasEvent(r.LastBegin.Events, "slash") {
		m.trips = map[string]*roundTrip{} // a slash ends every open round trip
	}
	m.check(r, r.Ledger(ctx), "begin-block")
}

func (m *c02Monitor) BeforeTx(r *Run, ctx sdk.Context, tx *BuiltTx) { m.pre = r.Ledger(ctx) }

// AfterDirect: a direct slash ends every open round trip, like a slash in BeginBlock.
func (m *c02Monitor) AfterDirect(r *Run, ctx sdk.Context, op Op) {
	if op.K == "kslash" {
		m.trips = map[string]*roundTrip{}
		m.check(r, r.Ledger(ctx), "direct-slash")
	}
}

func (m *c02Monitor) AfterTx(r *Run, ctx sdk.Context, tx *TxResult) {
	cur := r.Ledger(ctx)
	what := "tx:" + tx.Op.K
	m.check(r, cur, what)
	if r.Viol != nil || m.pre == nil {
		return
	}
	k := tx.Op.K
	if tx.Note == "replay" {
		// any replay may touch pools: end the open trips conservatively
		m.trips = map[string]*roundTrip{}
		return
	}
	if !(k == "del" || k == "und" || k == "ndel" || k == "nund") || !tx.OK {
		return
	}
	legs := []struct {
		op  sdk.AccAddress
		amt *big.Int
	}{{tx.Operator, tx.Amount}}
	if tx.Amount2 != nil {
		legs = append(legs, struct {
			op  sdk.AccAddress
			amt *big.Int
		}{tx.Operator2, tx.Amount2})
	}
	for _, leg := range legs {
		pk := leg.op.String() + "/" + tx.AssetID
		pp, pok := m.pre.Pools[pk]
		cp, cok := cur.Pools[pk]
		// fairness: every other delegator's redeemable value moves by at most one unit
		if pok && cok {
			for _, dk := range sortedKeysAny(cur.Deleg) {
				parts := strings.Split(dk, "/")
				if len(parts) != 3 || parts[1] != tx.AssetID || parts[2] != leg.op.String() || parts[0] == tx.StakerID {
					continue
				}
				before := redeemable(m.pre.Deleg[dk].UndelegatableShare, pp.TotalShare, pp.TotalAmount)
				after := redeemable(cur.Deleg[dk].UndelegatableShare, cp.TotalShare, cp.TotalAmount)
				diff := new(big.Int).Sub(after, before)
				if diff.CmpAbs(big.NewInt(1)) > 0 {
					r.Violate(m.Name(), "other-delegators-value-moves-at-most-one-unit", k, fmt.Sprintf("%s by %s of %s on pool %s changed redeemable value of %s from %s to %s (pool %s/%s -> %s/%s)", k, tx.StakerID, leg.amt, pk, parts[0], before, after, pp.TotalAmount, pp.TotalShare, cp.TotalAmount, cp.TotalShare))
					return
				}
			}
		}
		// round trips
		tk := tx.StakerID + "/" + tx.AssetID + "/" + leg.op.String()
		for okey, t := range m.trips {
			if strings.HasSuffix(okey, "/"+tx.AssetID+"/"+leg.op.String()) && okey != tk {
				t.touched = true // somebody else moved the pool in between
			}
		}
		preShare := sdkmath.LegacyZeroDec()
		if d, ok := m.pre.Deleg[tk]; ok {
			preShare = d.UndelegatableShare
		}
		curShare := sdkmath.LegacyZeroDec()
		if d, ok := cur.Deleg[tk]; ok {
			curShare = d.UndelegatableShare
		}
		switch k {
		case "del", "ndel":
			if preShare.IsZero() {
				m.trips[tk] = &roundTrip{x: new(big.Int).Set(leg.amt)}
			} else {
				delete(m.trips, tk)
			}
		case "und", "nund":
			t := m.trips[tk]
			delete(m.trips, tk)
			if t != nil && !t.touched && curShare.IsZero() && pok && cok {
				got := new(big.Int).Sub(pp.TotalAmount.BigInt(), cp.TotalAmount.BigInt())
				m.Trips++
				r.Probe("c02_round_trip_checked")
				lo := new(big.Int).Sub(t.x, big.NewInt(1))
				if got.Cmp(t.x) > 0 || got.Cmp(lo) < 0 {
					r.Violate(m.Name(), "round-trip-returns-x-or-x-minus-1", k, fmt.Sprintf("staker %s delegated %s to pool %s and undelegated everything with no slash or other movement in between: got %s", tx.StakerID, t.x, pk, got))
					return
				}
			}
		}
	}
}

func (m *c02Monitor) AfterEndBlock(r *Run, ctx sdk.Context, _ abci.ResponseEndBlock) {
	m.check(r, r.Ledger(ctx), "end-block")
}

// ---------------------------------------------------------------------------
// C03 — exit path
// ---------------------------------------------------------------------------

type c03Monitor struct {
	BaseMonitor
	pre       *Ledger
	last      *Ledger
	Released  int
	HeldPast  int
	MaxAlive  int
	known     map[string]bool
	pendingIdx map[string]int
	everIdx    map[string]int
	collided   map[string]string
}

func (m *c03Monitor) Name() string { return "exit-path" }

func (m *c03Monitor) AfterInit(r *Run) {
	m.last = r.Ledger(r.Node.DeliverCtx(r.Chain))
	m.aggregates(r, m.last, "genesis")
}

func (m *c03Monitor) aggregates(r *Run, l *Ledger, what string) {
	byStaker := map[string]*big.Int{}
	byOp := map[string]*big.Int{}
	byDel := map[string]*big.Int{}
	add := func(mm map[string]*big.Int, k string, v *big.Int) {
		if mm[k] == nil {
			mm[k] = new(big.Int)
		}
		mm[k].Add(mm[k], v)
	}
	for _, k := range l.RecOrder {
		rec := l.Records[k]
		add(byStaker, rec.StakerID+"/"+rec.AssetID, rec.Amount.BigInt())
		add(byOp, rec.OperatorAddr+"/"+rec.AssetID, rec.Amount.BigInt())
		add(byDel, rec.StakerID+"/"+rec.AssetID+"/"+rec.OperatorAddr, rec.Amount.BigInt())
	}
	if len(l.Records) > m.MaxAlive {
		m.MaxAlive = len(l.Records)
	}
	z := new(big.Int)
	get := func(mm map[string]*big.Int, k string) *big.Int {
		if v := mm[k]; v != nil {
			return v
		}
		return z
	}
	for _, k := range sortedKeysAny(l.Stakers) {
		if l.Stakers[k].PendingUndelegationAmount.BigInt().Cmp(get(byStaker, k)) != 0 {
			r.Violate(m.Name(), "staker-pending-equals-sum-of-live-records", what, fmt.Sprintf("%s: staker %s pending %s, live records sum %s", what, k, l.Stakers[k].PendingUndelegationAmount, get(byStaker, k)))
			return
		}
	}
	for k, v := range byStaker {
		if _, ok := l.Stakers[k]; !ok && !strings.HasSuffix(k, "/"+assetstypes.ExocoreAssetID) && v.Sign() != 0 {
			r.Violate(m.Name(), "staker-pending-equals-sum-of-live-records", what, fmt.Sprintf("%s: records for %s sum %s but no staker row", what, k, v))
			return
		}
	}
	for _, k := range sortedKeysAny(l.Pools) {
		if l.Pools[k].PendingUndelegationAmount.BigInt().Cmp(get(byOp, k)) != 0 {
			r.Violate(m.Name(), "operator-pending-equals-sum-of-live-records", what, fmt.Sprintf("%s: pool %s pending %s, live records sum %s", what, k, l.Pools[k].PendingUndelegationAmount, get(byOp, k)))
			return
		}
	}
	for _, k := range sortedKeysAny(l.Deleg) {
		if l.Deleg[k].WaitUndelegationAmount.BigInt().Cmp(get(byDel, k)) != 0 {
			r.Violate(m.Name(), "delegation-pending-equals-sum-of-live-records", what, fmt.Sprintf("%s: delegation %s wait amount %s, live records sum %s", what, k, l.Deleg[k].WaitUndelegationAmount, get(byDel, k)))
			return
		}
	}
}

// unchanged verifies that the records of `before` are all present and unmodified in `after`,
// except for fields listed as allowed.
func (m *c03Monitor) unchanged(r *Run, before, after *Ledger, what string, allowSlash bool) {
	for _, k := range before.RecOrder {
		b := before.Records[k]
		a, ok := after.Records[k]
		if !ok {
			r.Violate(m.Name(), "no-record-lost-or-released-early", what, fmt.Sprintf("%s: record %s (complete height %d, hold %d) disappeared at height %d", what, k, b.CompleteBlockNumber, before.Holds[k], after.Height))
			return
		}
		if allowSlash {
			if a.ActualCompletedAmount.GT(b.ActualCompletedAmount) {
				r.Violate(m.Name(), "record-not-overwritten", what, fmt.Sprintf("%s: record %s payout grew %s -> %s", what, k, b.ActualCompletedAmount, a.ActualCompletedAmount))
				return
			}
			a.ActualCompletedAmount = b.ActualCompletedAmount
		}
		if !reflect.DeepEqual(a, b) {
			r.Violate(m.Name(), "record-not-overwritten", what, fmt.Sprintf("%s: record %s changed: %+v -> %+v", what, k, b, a))
			return
		}
	}
}

func (m *c03Monitor) AfterBeginBlock(r *Run, ctx sdk.Context) {
	cur := r.Ledger(ctx)
	m.unchanged(r, m.last, cur, "begin-block", true)
	if len(cur.Records) != len(m.last.Records) && r.Viol == nil {
		r.Violate(m.Name(), "one-record-per-accepted-undelegation", "begin-block", fmt.Sprintf("record count changed %d -> %d in BeginBlock", len(m.last.Records), len(cur.Records)))
	}
	m.aggregates(r, cur, "begin-block")
	m.last = cur
}

func (m *c03Monitor) BeforeTx(r *Run, ctx sdk.Context, tx *BuiltTx) { m.pre = r.Ledger(ctx) }

// secondHolder: a record the second holder still holds exists and its stored hold count covers those holds.
func (m *c03Monitor) secondHolder(r *Run, cur *Ledger, what string) {
	for _, k := range sortedKeysU(r.ExtraHolds) {
		n := r.ExtraHolds[k]
		if n == 0 {
			continue
		}
		if _, ok := cur.Records[k]; !ok {
			r.Violate(m.Name(), "no-record-lost-or-released-early", "released-while-held-by-second-holder", fmt.Sprintf("%s: record %s is gone although a second holder still holds it %d time(s)", what, k, n))
			return
		}
		if cur.Holds[k] < n {
			r.Violate(m.Name(), "hold-count-covers-every-holder", what[:strings.IndexAny(what+":", ":")], fmt.Sprintf("%s: record %s has a stored hold count of %d but the second holder alone holds it %d time(s)", what, k, cur.Holds[k], n))
			return
		}
	}
	if len(r.ReleaseErr) > 0 {
		r.Violate(m.Name(), "hold-count-covers-every-holder", "release-refused", fmt.Sprintf("%s: the second holder's release was refused: %v", what, r.ReleaseErr))
	}
}

func sortedKeysU(m map[string]uint64) []string {
	ks := make([]string, 0, len(m))
	for k := range m {
		ks = append(ks, k)
	}
	sort.Strings(ks)
	return ks
}

// AfterDirect: a direct slash call behaves like the slashing part of BeginBlock.
func (m *c03Monitor) AfterDirect(r *Run, ctx sdk.Context, op Op) {
	if op.K == "hold" || op.K == "unhold" {
		cur := r.Ledger(ctx)
		m.unchanged(r, m.last, cur, "second-holder", false)
		m.secondHolder(r, cur, "second-holder")
		m.last = cur
		return
	}
	cur := r.Ledger(ctx)
	m.unchanged(r, m.last, cur, "direct-slash", true)
	if len(cur.Records) != len(m.last.Records) && r.Viol == nil {
		r.Violate(m.Name(), "one-record-per-accepted-undelegation", "direct-slash", fmt.Sprintf("record count changed %d -> %d in a slash", len(m.last.Records), len(cur.Records)))
	}
	m.aggregates(r, cur, "direct-slash")
	m.last = cur
}

func (m *c03Monitor) AfterTx(r *Run, ctx sdk.Context, tx *TxResult) {
	cur := r.Ledger(ctx)
	pre := m.pre
	defer func() { m.last = cur }()
	k := tx.Op.K
	what := "tx:" + k
	m.unchanged(r, pre, cur, what, false)
	if r.Viol != nil {
		return
	}
	var fresh []string
	for _, key := range cur.RecOrder {
		if _, ok := pre.Records[key]; !ok {
			fresh = append(fresh, key)
		}
	}
	isUnd := (k == "und" || k == "nund") && tx.Note != "replay"
	if !isUnd {
		if tx.Note == "replay" && (tx.Method == "undelegate" || tx.Method == "MsgUndelegation") {
			// a replay that is accepted again is a new undelegation; counted but not modelled
			m.aggregates(r, cur, what)
			return
		}
		if len(fresh) != 0 {
			r.Violate(m.Name(), "one-record-per-accepted-undelegation", what, fmt.Sprintf("%s created %d undelegation records", k, len(fresh)))
			return
		}
		if k == "wd" && tx.Op.M == 0 && tx.Note != "replay" {
			w := pre.Stakers[tx.StakerID+"/"+tx.AssetID].WithdrawableAmount
			if !w.IsNil() && tx.Amount.Sign() > 0 && tx.Amount.Cmp(w.BigInt()) <= 0 && !r.isNST(tx.AssetID) && !tx.OK {
				r.Violate(m.Name(), "withdrawal-within-balance-accepted", errClass(tx), fmt.Sprintf("withdrawal of %s by %s (withdrawable %s) rejected: code %d %s", tx.Amount, tx.StakerID, w, tx.Resp.Code, firstN(tx.Resp.Log, 300)))
				return
			}
		}
		m.aggregates(r, cur, what)
		return
	}
	type leg struct {
		op  sdk.AccAddress
		amt *big.Int
	}
	legs := []leg{{tx.Operator, tx.Amount}}
	if tx.Amount2 != nil {
		legs = append(legs, leg{tx.Operator2, tx.Amount2})
	}
	// acceptance
	allValid := tx.Op.M == 0
	positions := make([]*big.Int, len(legs))
	for i, lg := range legs {
		pk := lg.op.String() + "/" + tx.AssetID
		d := pre.Deleg[tx.StakerID+"/"+tx.AssetID+"/"+lg.op.String()]
		p, ok := pre.Pools[pk]
		pos := new(big.Int)
		if ok && !d.UndelegatableShare.IsNil() {
			pos = redeemable(d.UndelegatableShare, p.TotalShare, p.TotalAmount)
		}
		positions[i] = pos
		if lg.amt.Sign() <= 0 || lg.amt.Cmp(pos) > 0 {
			allValid = false
		}
	}
	if allValid && !tx.OK {
		state := r.operatorState(ctx, tx.Operator)
		disc := errClass(tx)
		r.Violate(m.Name(), "undelegation-within-position-accepted", disc, fmt.Sprintf("undelegation of %s (position %s) by %s from %s (operator state: %s) rejected: code %d flag %v log %s", tx.Amount, positions[0], tx.StakerID, tx.Operator, state, tx.Resp.Code, tx.Flag, firstN(tx.Resp.Log, 400)))
		return
	}
	if !tx.OK {
		if len(fresh) != 0 {
			r.Violate(m.Name(), "one-record-per-accepted-undelegation", "failed-und", fmt.Sprintf("failed undelegation created %d records", len(fresh)))
		}
		m.aggregates(r, cur, what)
		return
	}
	if len(fresh) != len(legs) {
		r.Violate(m.Name(), "one-record-per-accepted-undelegation", fmt.Sprintf("legs%d-records%d", len(legs), len(fresh)), fmt.Sprintf("accepted undelegation with %d operator legs created %d new records (%d before, %d after)", len(legs), len(fresh), len(pre.Records), len(cur.Records)))
		return
	}
	for _, lg := range legs {
		found := false
		for _, key := range fresh {
			rec := cur.Records[key]
			if rec.OperatorAddr != lg.op.String() {
				continue
			}
			found = true
			if rec.StakerID != tx.StakerID || rec.AssetID != tx.AssetID || !rec.IsPending || rec.BlockNumber != uint64(cur.Height) || rec.CompleteBlockNumber < uint64(cur.Height) || !rec.Amount.Equal(rec.ActualCompletedAmount) {
				r.Violate(m.Name(), "record-matches-request", "fields", fmt.Sprintf("record %+v does not match request staker %s asset %s height %d", rec, tx.StakerID, tx.AssetID, cur.Height))
				return
			}
			diff := new(big.Int).Sub(rec.Amount.BigInt(), lg.amt)
			pk := lg.op.String() + "/" + tx.AssetID
			pos := redeemable(pre.Deleg[tx.StakerID+"/"+tx.AssetID+"/"+lg.op.String()].UndelegatableShare, pre.Pools[pk].TotalShare, pre.Pools[pk].TotalAmount)
			sweep := rec.Amount.BigInt().Cmp(pos) >= 0 && cur.Deleg[tx.StakerID+"/"+tx.AssetID+"/"+lg.op.String()].UndelegatableShare.IsZero()
			if diff.CmpAbs(big.NewInt(1)) > 0 && !sweep {
				r.Violate(m.Name(), "record-matches-request", "amount", fmt.Sprintf("requested %s, recorded %s (position %s)", lg.amt, rec.Amount, pos))
				return
			}
		}
		if !found {
			r.Violate(m.Name(), "one-record-per-accepted-undelegation", "operator-leg-missing", fmt.Sprintf("no new record for operator %s", lg.op))
			return
		}
	}
	// remember which records share an index key with another live record at creation time
	for _, key := range fresh {
		rec := cur.Records[key]
		for _, k2 := range cur.RecOrder {
			o := cur.Records[k2]
			if k2 == key {
				continue
			}
			if o.CompleteBlockNumber == rec.CompleteBlockNumber && o.LzTxNonce == rec.LzTxNonce {
				m.markCollision(key, k2, "pending-index-collision(completeHeight,nonce)")
			}
			if o.StakerID == rec.StakerID && o.AssetID == rec.AssetID && o.LzTxNonce == rec.LzTxNonce {
				m.markCollision(key, k2, "staker-index-collision(staker,asset,nonce)")
			}
		}
	}
	m.aggregates(r, cur, what)
}

func (m *c03Monitor) markCollision(a, b, kind string) {
	if m.collided == nil {
		m.collided = map[string]string{}
	}
	if m.collided[a] == "" {
		m.collided[a] = kind
	}
	if m.collided[b] == "" {
		m.collided[b] = kind
	}
}

// operatorState is a coarse lifecycle description used in discriminators.
func (r *Run) operatorState(ctx sdk.Context, op sdk.AccAddress) string {
	app := r.Node.App
	chain := r.W.ChainIDNoRev
	var parts []string
	if !app.OperatorKeeper.IsOptedIn(ctx, op.String(), r.W.DogfoodAVS) {
		parts = append(parts, "not-opted-in")
	} else {
		parts = append(parts, "opted-in")
	}
	if app.OperatorKeeper.IsOperatorRemovingKeyFromChainID(ctx, op, chain) {
		parts = append(parts, "removing-key")
	}
	found, key, _ := app.OperatorKeeper.GetOperatorConsKeyForChainID(ctx, op, chain)
	if !found {
		parts = append(parts, "no-key")
	} else if _, isVal := app.StakingKeeper.GetExocoreValidator(ctx, key.ToConsAddr()); isVal {
		parts = append(parts, "active-validator")
	} else {
		parts = append(parts, "key-not-active")
	}
	return strings.Join(parts, "+")
}

func (m *c03Monitor) AfterEndBlock(r *Run, ctx sdk.Context, _ abci.ResponseEndBlock) {
	cur := r.Ledger(ctx)
	pre := m.last
	defer func() {
		m.last = cur
		if r.Viol == nil {
			m.secondHolder(r, cur, "end-block")
		}
	}()
	h := uint64(cur.Height)
	// holds that the dogfood module releases in this block (read from its pending list)
	dec := map[string]uint64{}
	for _, k := range r.PendingDogfoodUndelegations {
		dec[k]++
	}
	// how many records were filed under each (completion height, nonce) pair
	m.pendingIdx = map[string]int{}
	for _, k := range pre.RecOrder {
		rec := pre.Records[k]
		m.pendingIdx[fmt.Sprintf("%d/%d", rec.CompleteBlockNumber, rec.LzTxNonce)]++
	}
	for k, v := range m.everIdx {
		if m.pendingIdx[k] > 0 {
			m.pendingIdx[k] += v
		}
	}
	credit := map[string]*big.Int{}
	for _, k := range pre.RecOrder {
		rec := pre.Records[k]
		hold := pre.Holds[k]
		if d := dec[k]; d > 0 {
			if d > hold {
				d = hold
			}
			hold -= d
		}
		// holds of the simulated second holder are the monitor's own tally, not the store's
		if extra := r.ExtraHolds[k]; hold < extra {
			hold = extra
		}
		due := rec.CompleteBlockNumber <= h
		after, present := cur.Records[k]
		switch {
		case due && hold == 0:
			if present {
				disc := "other"
				if m.pendingIdx[fmt.Sprintf("%d/%d", rec.CompleteBlockNumber, rec.LzTxNonce)] > 1 {
					disc = "pending-index-collision(completeHeight,nonce)"
				}
				if c := m.collided[k]; c != "" {
					disc = c
				}
				r.Violate(m.Name(), "released-at-first-block-at-completion-height-without-hold", disc, fmt.Sprintf("record %s (complete height %d, nonce %d, hold 0) still present after EndBlock of height %d", k, rec.CompleteBlockNumber, rec.LzTxNonce, h))
				return
			}
			m.Released++
			if m.everIdx == nil {
				m.everIdx = map[string]int{}
			}
			m.everIdx[fmt.Sprintf("%d/%d", rec.CompleteBlockNumber, rec.LzTxNonce)]++
			ck := rec.StakerID + "/" + rec.AssetID
			if credit[ck] == nil {
				credit[ck] = new(big.Int)
			}
			credit[ck].Add(credit[ck], rec.ActualCompletedAmount.BigInt())
		case due && hold > 0:
			m.HeldPast++
			r.Probe("c03_record_held_at_completion_height")
			if !present {
				r.Violate(m.Name(), "no-record-lost-or-released-early", "released-while-held", fmt.Sprintf("record %s released at height %d although %d hold(s) remain", k, h, hold))
				return
			}
			after.CompleteBlockNumber = rec.CompleteBlockNumber
			if !reflect.DeepEqual(after, rec) {
				r.Violate(m.Name(), "record-not-overwritten", "held-record-changed", fmt.Sprintf("held record %s changed: %+v -> %+v", k, rec, cur.Records[k]))
				return
			}
		default:
			if !present {
				r.Violate(m.Name(), "no-record-lost-or-released-early", "released-early", fmt.Sprintf("record %s with completion height %d released at height %d", k, rec.CompleteBlockNumber, h))
				return
			}
			if !reflect.DeepEqual(after, rec) {
				r.Violate(m.Name(), "record-not-overwritten", "end-block", fmt.Sprintf("record %s changed in EndBlock: %+v -> %+v", k, rec, after))
				return
			}
		}
	}
	// re-queued (held) records may now share a pending-index key with another record
	for i, k1 := range cur.RecOrder {
		for _, k2 := range cur.RecOrder[i+1:] {
			a, b := cur.Records[k1], cur.Records[k2]
			if a.CompleteBlockNumber == b.CompleteBlockNumber && a.LzTxNonce == b.LzTxNonce {
				m.markCollision(k1, k2, "pending-index-collision(completeHeight,nonce)")
			}
		}
	}
	for _, k := range cur.RecOrder {
		if _, ok := pre.Records[k]; !ok {
			r.Violate(m.Name(), "one-record-per-accepted-undelegation", "end-block-created", fmt.Sprintf("record %s appeared in EndBlock", k))
			return
		}
	}
	// credits: exactly the recorded amount less slashing, to the same staker
	stakerKeys := map[string]int{}
	for k := range pre.Stakers {
		stakerKeys[k] = 1
	}
	for k := range cur.Stakers {
		stakerKeys[k] = 1
	}
	for _, k := range sortedKeys(stakerKeys) {
		b, a := pre.Stakers[k].WithdrawableAmount, cur.Stakers[k].WithdrawableAmount
		bb, ab := new(big.Int), new(big.Int)
		if !b.IsNil() {
			bb = b.BigInt()
		}
		if !a.IsNil() {
			ab = a.BigInt()
		}
		d := new(big.Int).Sub(ab, bb)
		want := credit[k]
		if want == nil {
			want = new(big.Int)
		}
		if d.Cmp(want) != 0 {
			r.Violate(m.Name(), "release-credits-exactly-recorded-amount", "withdrawable", fmt.Sprintf("staker %s withdrawable changed by %s in EndBlock of height %d, released records pay %s", k, d, h, want))
			return
		}
	}
	for _, n := range r.W.Natives {
		sid, _ := assetstypes.GetStakerIDAndAssetID(assetstypes.ExocoreChainLzID, n.Addr.Bytes(), nil)
		d := new(big.Int).Sub(cur.NativeBal[n.Addr.String()].BigInt(), pre.NativeBal[n.Addr.String()].BigInt())
		want := credit[sid+"/"+assetstypes.ExocoreAssetID]
		if want == nil {
			want = new(big.Int)
		}
		if d.Cmp(want) != 0 {
			r.Violate(m.Name(), "release-credits-exactly-recorded-amount", "native-balance", fmt.Sprintf("native staker %s balance changed by %s in EndBlock of height %d, released records pay %s", n.Addr, d, h, want))
			return
		}
	}
	m.aggregates(r, cur, "end-block")
}

var _ = hexutil.Encode
var _ = delegationtypes.ModuleName

// errClass is a short, digit-normalised head of the failure message of a transaction.
func errClass(tx *TxResult) string {
	msg := tx.Resp.Log
	if tx.EthResp != nil && tx.EthResp.VmError != "" {
		msg = tx.EthResp.VmError
	}
	if tx.Resp.Code == 0 && tx.Flag != nil && !*tx.Flag {
		msg = "precompile returned false"
	}
	msg = firstLine(msg)
	if i := strings.Index(msg, "stack:"); i >= 0 {
		msg = msg[:i]
	}
	if strings.HasPrefix(msg, "failed to execute message; message index: ") {
		if i := strings.Index(msg[42:], ": "); i >= 0 {
			msg = msg[42+i+2:]
		}
	}
	if len(msg) > 90 {
		msg = msg[:90]
	}
	return normDigits(strings.TrimSpace(msg))
}
