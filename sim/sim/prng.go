package sim

import (
	"encoding/binary"
	"math/big"
)

// PRNG is a small, fully deterministic generator (splitmix64 seeding a xoshiro256**).
// Every random choice of the simulator derives from one of these; nothing else
// (no math/rand global, no crypto/rand, no clock) is ever consulted.
type PRNG struct{ s [4]uint64 }

func splitmix(x *uint64) uint64 {
	*x += 0x9e3779b97f4a7c15
	z := *x
	z = (z ^ (z >> 30)) * 0xbf58476d1ce4e5b9
	z = (z ^ (z >> 27)) * 0x94d049bb133111eb
	return z ^ (z >> 31)
}

// Mix derives a child seed from a parent seed and labels.
func Mix(seed uint64, labels ...uint64) uint64 {
	x := seed
	out := splitmix(&x)
	for _, l := range labels {
		x ^= l * 0xd6e8feb86659fd93
		out ^= splitmix(&x)
	}
	return out
}

// MixStr folds a string label into a seed.
func MixStr(seed uint64, s string) uint64 {
	h := uint64(1469598103934665603)
	for i := 0; i < len(s); i++ {
		h ^= uint64(s[i])
		h *= 1099511628211
	}
	return Mix(seed, h)
}

func NewPRNG(seed uint64) *PRNG {
	p := &PRNG{}
	x := seed
	for i := range p.s {
		p.s[i] = splitmix(&x)
	}
	return p
}

func rotl(x uint64, k uint) uint64 { return (x << k) | (x >> (64 - k)) }

func (p *PRNG) Uint64() uint64 {
	s := &p.s
	r := rotl(s[1]*5, 7) * 9
	t := s[1] << 17
	s[2] ^= s[0]
	s[3] ^= s[1]
	s[1] ^= s[2]
	s[0] ^= s[3]
	s[2] ^= t
	s[3] = rotl(s[3], 45)
	return r
}

// Intn returns a value in [0,n). n<=0 returns 0.
func (p *PRNG) Intn(n int) int {
	if n <= 1 {
		return 0
	}
	return int(p.Uint64() % uint64(n))
}

// Range returns a value in [lo,hi].
func (p *PRNG) Range(lo, hi int) int {
	if hi <= lo {
		return lo
	}
	return lo + p.Intn(hi-lo+1)
}

func (p *PRNG) Int63n(n int64) int64 {
	if n <= 1 {
		return 0
	}
	return int64(p.Uint64() % uint64(n))
}

// Chance returns true with probability num/den.
func (p *PRNG) Chance(num, den int) bool { return p.Intn(den) < num }

func (p *PRNG) Bytes(n int) []byte {
	b := make([]byte, 0, n+8)
	for len(b) < n {
		var w [8]byte
		binary.LittleEndian.PutUint64(w[:], p.Uint64())
		b = append(b, w[:]...)
	}
	return b[:n]
}

// BigBelow returns a uniformly distributed big integer in [0, max).
func (p *PRNG) BigBelow(max *big.Int) *big.Int {
	if max.Sign() <= 0 {
		return new(big.Int)
	}
	n := (max.BitLen() + 7) / 8
	b := p.Bytes(n + 8)
	v := new(big.Int).SetBytes(b)
	return v.Mod(v, max)
}

// Weighted picks an index with probability proportional to w[i].
func (p *PRNG) Weighted(w []int) int {
	t := 0
	for _, x := range w {
		if x > 0 {
			t += x
		}
	}
	if t == 0 {
		return 0
	}
	r := p.Intn(t)
	for i, x := range w {
		if x <= 0 {
			continue
		}
		if r < x {
			return i
		}
		r -= x
	}
	return len(w) - 1
}

// Perm returns a permutation of [0,n).
func (p *PRNG) Perm(n int) []int {
	a := make([]int, n)
	for i := range a {
		a[i] = i
	}
	for i := n - 1; i > 0; i-- {
		j := p.Intn(i + 1)
		a[i], a[j] = a[j], a[i]
	}
	return a
}
