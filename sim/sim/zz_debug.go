package sim

import (
	"encoding/json"
	"fmt"
	"os"
)

// DebugReplay runs a replay file verbosely with an extra dump hook.
func DebugReplay(path string) {
	b, _ := os.ReadFile(path)
	var rf ReplayFile
	_ = json.Unmarshal(b, &rf)
	spec := Registry[rf.Property]
	r := NewRun(spec.ID, rf.Seed, rf.Config, rf.Plan, spec.Monitors())
	r.NoKnown = true
	r.Verbose = true
	r.Execute()
	for _, l := range r.Log {
		fmt.Println(l)
	}
	ctx := r.Node.DeliverCtx(r.Chain)
	l, _ := r.TakeLedger(ctx)
	for _, k := range l.RecOrder {
		fmt.Printf("record %s hold=%d rec=%+v\n", k, l.Holds[k], l.Records[k])
		e, ok := r.Node.App.StakingKeeper.GetUndelegationMaturityEpoch(ctx, []byte(k))
		fmt.Println("  maturity", e, ok)
	}
	for _, o := range r.W.Ops {
		found, key, _ := r.Node.App.OperatorKeeper.GetOperatorConsKeyForChainID(ctx, o.Addr, r.W.ChainIDNoRev)
		fmt.Println("op", o.Idx, o.Addr, "key", found)
		if found {
			_, isv := r.Node.App.StakingKeeper.GetExocoreValidator(ctx, key.ToConsAddr())
			fmt.Println("   validator:", isv, "chain", ctx.ChainID(), r.W.ChainIDNoRev)
		}
	}
	if r.Viol != nil {
		fmt.Println(r.Viol.Detail)
	}
}
