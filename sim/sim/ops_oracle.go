package sim

import (
	"strings"
	"fmt"

	"github.com/cosmos/cosmos-sdk/crypto/keys/ed25519"
	sdk "github.com/cosmos/cosmos-sdk/types"

	oracletypes "github.com/ExocoreNetwork/exocore/x/oracle/types"
)

const oracleTimeLayout = "2006-01-02 15:04:05"

// currentConsKey returns the private consensus key that matches the operator's current
// consensus key on chain (nil if it has none or it is not from the key pools).
func (r *Run) currentConsKey(ctx sdk.Context, o *Operator) *ed25519.PrivKey {
	found, key, _ := r.Node.App.OperatorKeeper.GetOperatorConsKeyForChainID(ctx, o.Addr, r.W.ChainIDNoRev)
	if !found || key == nil {
		return nil
	}
	addr := key.ToConsAddr()
	for _, op := range r.W.Ops {
		for _, k := range op.ConsKeys {
			if string(k.PubKey().Address()) == string(addr) {
				return k
			}
		}
	}
	return nil
}

// activeConsKey returns the key with which the operator is in the stored validator set
// (current or, after a replacement, the previous one).
func (r *Run) activeConsKey(ctx sdk.Context, o *Operator) *ed25519.PrivKey {
	for _, k := range o.ConsKeys {
		if _, ok := r.Node.App.StakingKeeper.GetExocoreValidator(ctx, sdk.ConsAddress(k.PubKey().Address())); ok {
			return k
		}
	}
	for _, op := range r.W.Ops {
		for _, k := range op.ConsKeys {
			if found, who := r.Node.App.OperatorKeeper.GetOperatorAddressForChainIDAndConsAddr(ctx, r.W.ChainIDNoRev, sdk.ConsAddress(k.PubKey().Address())); found && who.Equals(o.Addr) {
				if _, ok := r.Node.App.StakingKeeper.GetExocoreValidator(ctx, sdk.ConsAddress(k.PubKey().Address())); ok {
					return k
				}
			}
		}
	}
	return nil
}

// OracleInfo is what the monitors need to know about a price submission.
type OracleInfo struct {
	Validator  string // bech32 consensus address used as nonce key
	Creator    string
	FeederID   uint64
	BasedBlock uint64
	Nonce      int32
	Price      string
	Decimal    int32
	DetID      string
	SourceID   uint64
	Timestamp  string
	SigMode    SigMode
	TsOffset   int64
	Size       int
	IsValidator bool
	NMsgs      int
}

// BasedBlockFor returns the based block of the round that is open for the feeder while block h
// is being executed (computed from the feeder parameters as the statement describes rounds).
func BasedBlockFor(f *oracletypes.TokenFeeder, h int64) (uint64, uint64, bool) {
	b := uint64(h - 1)
	if f.StartBaseBlock > b || (f.EndBlock > 0 && f.EndBlock <= b) {
		return 0, 0, false
	}
	delta := b - f.StartBaseBlock
	return b - delta%f.Interval, f.StartRoundID + delta/f.Interval, true
}

func init() {
	// price: A operator idx; B feeder id (1-based, 0 -> 1); S price; N nonce (0 = next);
	// E based-block delta; C det id delta; M signature mode; D timestamp offset seconds;
	// C2 = 1: attribute to a non-validator key (user-derived); C2 = 2: creator spelled in upper-case
	// bech32; Amt2 = "pad:<n>" pads the tx size
	extraBuilders["price"] = func(r *Run, ctx sdk.Context, op Op) (*BuiltTx, error) {
		w := r.W
		o := w.Op(op.A)
		bt := &BuiltTx{Op: op, Kind: "oracle", Method: "MsgCreatePrice", Operator: o.Addr}
		key := r.activeConsKey(ctx, o)
		isVal := key != nil
		if key == nil {
			key = r.currentConsKey(ctx, o)
		}
		if key == nil {
			key = o.ConsKeys[ConsKeyPool-1]
		}
		if op.C2 == 1 {
			key = deriveEdKey(r.Cfg.Seed, "outsider", op.A)
			isVal = false
		}
		p := r.Node.App.OracleKeeper.GetParams(ctx)
		fid := uint64(op.B)
		if fid == 0 {
			fid = 1
		}
		if int(fid) >= len(p.TokenFeeders) {
			fid = uint64(len(p.TokenFeeders) - 1)
		}
		feeder := p.TokenFeeders[fid]
		bb, roundID, _ := BasedBlockFor(feeder, ctx.BlockHeight())
		bb = uint64(int64(bb) + int64(op.E))
		validator := sdk.ConsAddress(key.PubKey().Address()).String()
		nonce := int32(op.N)
		if nonce == 0 {
			nonce = 1
			if n, ok := r.Node.App.OracleKeeper.GetNonce(ctx, validator); ok {
				for _, x := range n.NonceList {
					if x.FeederID == fid {
						nonce = int32(x.Value) + 1
					}
				}
			}
		}
		dec := int32(0)
		if int(feeder.TokenID) < len(p.Tokens) {
			dec = p.Tokens[feeder.TokenID].Decimal
		}
		if op.E == 99 { // wrong decimal
			dec++
			bb = uint64(int64(bb) - 99)
		}
		price := op.S
		if price == "" {
			price = "1"
		}
		ts := ctx.BlockTime().UTC().Add(sdkDur(int64(op.D)))
		detID := fmt.Sprintf("%d", int64(roundID)+int64(op.C))
		src := uint64(1)
		if op.M >= 100 { // wrong source
			src = 2
		}
		creator := OracleCreator(key)
		if op.C2 == 2 {
			creator = strings.ToUpper(creator) // bech32 also accepts the all-upper-case spelling
		}
		msg := NewPriceMsg(creator, fid, bb, nonce, src, price, dec, detID, ts.Format(oracleTimeLayout))
		if op.Amt2 != "" {
			var n int
			fmt.Sscanf(op.Amt2, "pad:%d", &n)
			pad := make([]byte, n)
			for i := range pad {
				pad[i] = 'x'
			}
			msg.Prices[0].Desc = string(pad)
		}
		other := w.Op(op.A + 1).ConsKeys[0]
		if other.PubKey().Equals(key.PubKey()) {
			// the "other" key must really be another key (an operator may have taken its neighbour's unused key)
			other = deriveEdKey(r.Cfg.Seed, "otherkey", op.A)
		}
		mode := SigMode(op.M % 100)
		bz, err := OracleTx(r.Cfg.ChainID, key, other, mode, msg)
		if err != nil {
			return nil, err
		}
		var want int
		if n, _ := fmt.Sscanf(op.Amt2, "size:%d", &want); n == 1 {
			for i := 0; i < 4 && len(bz) != want; i++ {
				d := want - len(bz) + len(msg.Prices[0].Desc)
				if d < 0 {
					break
				}
				pad := make([]byte, d)
				for j := range pad {
					pad[j] = 'x'
				}
				msg.Prices[0].Desc = string(pad)
				if bz, err = OracleTx(r.Cfg.ChainID, key, other, mode, msg); err != nil {
					return nil, err
				}
			}
		}
		bt.Bytes = bz
		bt.Sender = sdk.AccAddress(key.PubKey().Address())
		bt.Oracle = &OracleInfo{Validator: validator, Creator: msg.Creator, FeederID: fid, BasedBlock: bb, Nonce: nonce, Price: price, Decimal: dec,
			DetID: detID, SourceID: src, Timestamp: msg.Prices[0].Prices[0].Timestamp, SigMode: mode, TsOffset: int64(op.D), Size: len(bz), IsValidator: isVal, NMsgs: 1}
		return bt, nil
	}
}

func init() {
	// price2: ONE fee-less transaction with TWO create-price messages: the first attributed to
	// operator A's consensus key (which signs), the second attributed to operator C's consensus key
	// (which does not sign). B feeder, S price. The second message is a forgery: it must not be
	// admitted or counted for C.
	extraBuilders["price2"] = func(r *Run, ctx sdk.Context, op Op) (*BuiltTx, error) {
		w := r.W
		a, v := w.Op(op.A), w.Op(op.C)
		bt := &BuiltTx{Op: op, Kind: "oracle", Method: "MsgCreatePrice x2", Operator: v.Addr}
		keyOf := func(o *Operator) (*ed25519.PrivKey, bool) {
			if k := r.activeConsKey(ctx, o); k != nil {
				return k, true
			}
			if k := r.currentConsKey(ctx, o); k != nil {
				return k, false
			}
			return o.ConsKeys[ConsKeyPool-1], false
		}
		ka, _ := keyOf(a)
		kv, vIsVal := keyOf(v)
		p := r.Node.App.OracleKeeper.GetParams(ctx)
		fid := uint64(op.B)
		if fid == 0 {
			fid = 1
		}
		if int(fid) >= len(p.TokenFeeders) {
			fid = uint64(len(p.TokenFeeders) - 1)
		}
		feeder := p.TokenFeeders[fid]
		bb, roundID, _ := BasedBlockFor(feeder, ctx.BlockHeight())
		nextNonce := func(k *ed25519.PrivKey) int32 {
			n := int32(1)
			if x, ok := r.Node.App.OracleKeeper.GetNonce(ctx, sdk.ConsAddress(k.PubKey().Address()).String()); ok {
				for _, e := range x.NonceList {
					if e.FeederID == fid {
						n = int32(e.Value) + 1
					}
				}
			}
			return n
		}
		dec := int32(0)
		if int(feeder.TokenID) < len(p.Tokens) {
			dec = p.Tokens[feeder.TokenID].Decimal
		}
		price := op.S
		if price == "" {
			price = "1"
		}
		ts := ctx.BlockTime().UTC().Format(oracleTimeLayout)
		detID := fmt.Sprintf("%d", roundID)
		m1 := NewPriceMsg(OracleCreator(ka), fid, bb, nextNonce(ka), 1, price, dec, detID, ts)
		nv := nextNonce(kv)
		m2 := NewPriceMsg(OracleCreator(kv), fid, bb, nv, 1, price, dec, detID, ts)
		bz, err := OracleTx(r.Cfg.ChainID, ka, ka, SigValid, m1, m2)
		if err != nil {
			return nil, err
		}
		bt.Bytes = bz
		bt.Sender = sdk.AccAddress(ka.PubKey().Address())
		victim := sdk.ConsAddress(kv.PubKey().Address()).String()
		bt.Oracle = &OracleInfo{Validator: victim, Creator: m2.Creator, FeederID: fid, BasedBlock: bb, Nonce: nv, Price: price, Decimal: dec,
			DetID: detID, SourceID: 1, Timestamp: ts, SigMode: SigOtherKey, Size: len(bz), IsValidator: vIsVal, NMsgs: 2}
		return bt, nil
	}
}

func init() {
	// price3: ONE fee-less transaction with TWO create-price messages of the SAME validator (operator
	// A, which signs): the first is a regular report for feeder B with the next nonce, the second
	// repeats it with the following nonce, so it passes the ante handler and is then refused by the
	// message server (same source round again). The transaction fails as a whole.
	extraBuilders["price3"] = func(r *Run, ctx sdk.Context, op Op) (*BuiltTx, error) {
		w := r.W
		a := w.Op(op.A)
		bt := &BuiltTx{Op: op, Kind: "oracle", Method: "MsgCreatePrice x2 (one signer)", Operator: a.Addr}
		key := r.activeConsKey(ctx, a)
		isVal := key != nil
		if key == nil {
			key = r.currentConsKey(ctx, a)
		}
		if key == nil {
			key = a.ConsKeys[ConsKeyPool-1]
		}
		p := r.Node.App.OracleKeeper.GetParams(ctx)
		fid := uint64(op.B)
		if fid == 0 {
			fid = 1
		}
		if int(fid) >= len(p.TokenFeeders) {
			fid = uint64(len(p.TokenFeeders) - 1)
		}
		feeder := p.TokenFeeders[fid]
		bb, roundID, _ := BasedBlockFor(feeder, ctx.BlockHeight())
		validator := sdk.ConsAddress(key.PubKey().Address()).String()
		nonce := int32(1)
		if n, ok := r.Node.App.OracleKeeper.GetNonce(ctx, validator); ok {
			for _, x := range n.NonceList {
				if x.FeederID == fid {
					nonce = int32(x.Value) + 1
				}
			}
		}
		dec := int32(0)
		if int(feeder.TokenID) < len(p.Tokens) {
			dec = p.Tokens[feeder.TokenID].Decimal
		}
		price := op.S
		if price == "" {
			price = "1"
		}
		ts := ctx.BlockTime().UTC().Format(oracleTimeLayout)
		detID := fmt.Sprintf("%d", roundID)
		m1 := NewPriceMsg(OracleCreator(key), fid, bb, nonce, 1, price, dec, detID, ts)
		m2 := NewPriceMsg(OracleCreator(key), fid, bb, nonce+1, 1, price, dec, detID, ts)
		bz, err := OracleTx(r.Cfg.ChainID, key, key, SigValid, m1, m2)
		if err != nil {
			return nil, err
		}
		bt.Bytes = bz
		bt.Sender = sdk.AccAddress(key.PubKey().Address())
		bt.Oracle = &OracleInfo{Validator: validator, Creator: m1.Creator, FeederID: fid, BasedBlock: bb, Nonce: nonce, Price: price, Decimal: dec,
			DetID: detID, SourceID: 1, Timestamp: ts, SigMode: SigValid, Size: len(bz), IsValidator: isVal, NMsgs: 2}
		return bt, nil
	}
}

// PriceRound appends one submission per operator (validators succeed, others are rejected)
// for the given feeder with the same price, which finalises the round if a round is open.
func PriceRound(nOps int, feeder int, price string) []Op {
	var ops []Op
	for i := 0; i < nOps; i++ {
		ops = append(ops, Op{K: "price", A: i, B: feeder, S: price})
	}
	return ops
}
