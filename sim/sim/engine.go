package sim

import (
	"runtime/debug"
	"bufio"
	"crypto/sha256"
	"encoding/hex"
	"encoding/json"
	"flag"
	"fmt"
	"os"
	"os/exec"
	"path/filepath"
	"runtime"
	"sort"
	"strconv"
	"strings"
	"sync"
	"time"
)

// PropSpec describes how one property is checked.
type PropSpec struct {
	ID          string
	Level       string // MANIFEST/evidence level
	Rule        string // generation + non-triviality rule (evidence text)
	Assumptions []string
	Real        []string
	Stub        []string
	// Runs per tier
	QuickRuns, ThoroughRuns int
	GenConfig   func(p *PRNG, tier string) Config
	GenPlan     func(p *PRNG, cfg Config, tier string) Plan
	Monitors    func() []Monitor
	// Exec runs one case; default executes the plan once on a single node.
	Exec func(r *Run)
	// NonTrivial decides whether a finished run counts towards distinct_nontrivial.
	NonTrivial func(r *Run) bool
	// Sample renders a case for the evidence file.
	PanicsAreViolations bool
}

var Registry = map[string]*PropSpec{}

func Register(s *PropSpec) { Registry[s.ID] = s }

// RunResult is what a worker reports per run.
type RunResult struct {
	Index      int        `json:"i"`
	Seed       uint64     `json:"seed"`
	PlanHash   string     `json:"plan"`
	NonTrivial bool       `json:"nt"`
	Stats      Stats      `json:"stats"`
	States     []string   `json:"states,omitempty"`
	Violation  *Violation `json:"viol,omitempty"`
	Config     *Config    `json:"cfg,omitempty"`
	Plan       *Plan      `json:"planv,omitempty"`
	WallMs     int64      `json:"ms"`
	Sample     string     `json:"sample,omitempty"`
}

func planHash(cfg Config, p Plan) string {
	cb, _ := json.Marshal(cfg)
	pb, _ := json.Marshal(p)
	h := sha256.Sum256(append(cb, pb...))
	return hex.EncodeToString(h[:8])
}

// runSeed derives the seed of run i of a batch.
func runSeed(base uint64, prop string, i int) uint64 { return Mix(MixStr(base, prop), uint64(i)) }

// GenCase generates the configuration and plan of run i.
// curTier is the tier of the batch executed by this process.
var curTier = "quick"

func GenCase(spec *PropSpec, base uint64, tier string, i int) (uint64, Config, Plan) {
	curTier = tier
	seed := runSeed(base, spec.ID, i)
	p := NewPRNG(seed)
	cfg := spec.GenConfig(p, tier)
	cfg.Seed = seed
	plan := spec.GenPlan(p, cfg, tier)
	return seed, cfg, plan
}

// ExecCase executes one case and returns the run.
func ExecCase(spec *PropSpec, seed uint64, cfg Config, plan Plan) (r *Run) {
	return execCase(spec, seed, cfg, plan, false)
}

func execCase(spec *PropSpec, seed uint64, cfg Config, plan Plan, noKnown bool) (r *Run) {
	r = NewRun(spec.ID, seed, cfg, plan, spec.Monitors())
	r.NoKnown = noKnown
	r.Tier = curTier
	r.NoPanicGuard = spec.PanicsAreViolations || os.Getenv("EXOSIM_PANICS_ARE_VIOLATIONS") != ""
	defer func() {
		if rec := recover(); rec != nil {
			// a panic in the harness itself (not inside a guarded ABCI call)
			r.abort(fmt.Sprintf("harness-panic: %v :: %s", rec, trimHarnessStack(string(debug.Stack()))))
			if os.Getenv("EXOSIM_DEBUG") != "" {
				panic(rec)
			}
		}
	}()
	if spec.Exec != nil {
		spec.Exec(r)
	} else {
		r.Execute()
	}
	return r
}

func sampleOf(cfg Config, plan Plan, r *Run) string {
	type s struct {
		Ops     int            `json:"ops"`
		Blocks  int            `json:"blocks"`
		Outcome map[string]int `json:"op_outcomes"`
		Faults  map[string]int `json:"faults"`
		Plan    Plan           `json:"plan"`
	}
	pl := plan
	if len(pl.Blocks) > 12 {
		pl.Blocks = pl.Blocks[:12]
	}
	b, _ := json.Marshal(s{Ops: plan.NumOps(), Blocks: len(plan.Blocks), Outcome: r.Stats.OpOutcomes, Faults: r.Stats.Faults, Plan: pl})
	return string(b)
}

// Worker executes runs [from,to) and prints one JSON line per run.
func Worker(spec *PropSpec, base uint64, tier string, from, to int, out *bufio.Writer) {
	for i := from; i < to; i++ {
		t0 := time.Now()
		seed, cfg, plan := GenCase(spec, base, tier, i)
		r := ExecCase(spec, seed, cfg, plan)
		res := RunResult{Index: i, Seed: seed, PlanHash: planHash(cfg, plan), Stats: r.Stats, Violation: r.Viol, WallMs: time.Since(t0).Milliseconds()}
		if os.Getenv("EXOSIM_NOWALL") != "" {
			res.WallMs = 0
		}
		if r.Viol == nil && r.Stats.Aborted == "" && spec.NonTrivial != nil {
			res.NonTrivial = spec.NonTrivial(r)
		}
		res.States = sortedKeys(r.Stats.States)
		if r.Viol != nil {
			res.Config, res.Plan = &cfg, &plan
		}
		if i%97 == 0 || (res.NonTrivial && i%13 == 0) {
			res.Sample = sampleOf(cfg, plan, r)
		}
		b, _ := json.Marshal(res)
		out.Write(b)
		out.WriteByte('\n')
		out.Flush()
	}
}

// ---------------------------------------------------------------------------
// known findings
// ---------------------------------------------------------------------------

type KnownFinding struct {
	Property    string `json:"property"`
	ID          string `json:"id"`
	Class       string `json:"class"` // exact violation class (property/monitor/invariant/discriminator)
	Description string `json:"description"`
	Status      string `json:"status"` // "open" | "fixed: <commit> ..."
}

type KnownFile struct {
	Findings []KnownFinding `json:"findings"`
	Fixed    []string       `json:"fixed"`
}

func VerifDir() string {
	if d := os.Getenv("EXOSIM_VERIF"); d != "" {
		return d
	}
	return "/verif"
}

func LoadKnown() KnownFile {
	var k KnownFile
	b, err := os.ReadFile(filepath.Join(VerifDir(), "known_findings.json"))
	if err != nil {
		return k
	}
	_ = json.Unmarshal(b, &k)
	return k
}

func (k KnownFile) Match(v *Violation) *KnownFinding {
	for i := range k.Findings {
		f := &k.Findings[i]
		if f.Status != "open" {
			continue
		}
		if f.Property == v.Prop && f.Class == v.Class() {
			return f
		}
	}
	return nil
}

// ---------------------------------------------------------------------------
// minimisation (delta debugging on the explicit plan)
// ---------------------------------------------------------------------------

// TargetClass is the violation class a replay or minimisation is after. Checks that report
// several independent classes per run (C18) skip other open known findings on the way to it.
var TargetClass string

func clonePlan(p Plan) Plan {
	b, _ := json.Marshal(p)
	var q Plan
	_ = json.Unmarshal(b, &q)
	return q
}

// Minimise shrinks a failing case while the same violation class persists.
func Minimise(spec *PropSpec, seed uint64, cfg Config, plan Plan, class string, budget time.Duration) (Plan, *Violation, int) {
	deadline := time.Now().Add(budget)
	tries := 0
	TargetClass = class
	fails := func(p Plan) *Violation {
		tries++
		r := execCase(spec, seed, cfg, p, true)
		if r.Viol != nil && r.Viol.Class() == class {
			return r.Viol
		}
		return nil
	}
	best := clonePlan(plan)
	bestV := fails(best)
	if bestV == nil {
		return plan, nil, tries
	}
	// 1. truncate after the violating block
	if bestV.Block+1 < len(best.Blocks) {
		c := clonePlan(best)
		c.Blocks = c.Blocks[:bestV.Block+1]
		if v := fails(c); v != nil {
			best, bestV = c, v
		}
	}
	// 2. remove chunks of blocks' ops / faults (keep the blocks themselves first: time matters)
	type item struct{ b, o int } // o>=0 op; o==-1 absent; -2 evid; -3 restart; -4 crash; -5 checktx
	collect := func(p Plan) []item {
		var it []item
		for bi, b := range p.Blocks {
			for oi := range b.Ops {
				it = append(it, item{bi, oi})
			}
			if len(b.Absent) > 0 {
				it = append(it, item{bi, -1})
			}
			if len(b.Evid) > 0 {
				it = append(it, item{bi, -2})
			}
			if b.Restart {
				it = append(it, item{bi, -3})
			}
			if b.Crash != "" {
				it = append(it, item{bi, -4})
			}
			if len(b.CheckTx) > 0 {
				it = append(it, item{bi, -5})
			}
		}
		return it
	}
	remove := func(p Plan, rm map[item]bool) Plan {
		q := clonePlan(p)
		for bi := range q.Blocks {
			b := &q.Blocks[bi]
			var ops []Op
			for oi, op := range b.Ops {
				if !rm[item{bi, oi}] {
					ops = append(ops, op)
				}
			}
			b.Ops = ops
			if rm[item{bi, -1}] {
				b.Absent = nil
			}
			if rm[item{bi, -2}] {
				b.Evid = nil
			}
			if rm[item{bi, -3}] {
				b.Restart = false
			}
			if rm[item{bi, -4}] {
				b.Crash = ""
			}
			if rm[item{bi, -5}] || len(ops) != len(p.Blocks[bi].Ops) {
				b.CheckTx = nil
			}
		}
		return q
	}
	for chunk := 0; ; {
		items := collect(best)
		if len(items) == 0 {
			break
		}
		if chunk == 0 || chunk > len(items) {
			chunk = (len(items) + 1) / 2
		}
		progress := false
		for start := 0; start < len(items) && time.Now().Before(deadline); start += chunk {
			end := start + chunk
			if end > len(items) {
				end = len(items)
			}
			rm := map[item]bool{}
			for _, it := range items[start:end] {
				rm[it] = true
			}
			c := remove(best, rm)
			if v := fails(c); v != nil {
				best, bestV = c, v
				progress = true
				break
			}
		}
		if time.Now().After(deadline) {
			break
		}
		if progress {
			continue
		}
		if chunk == 1 {
			break
		}
		chunk = chunk / 2
	}
	// 3. remove whole empty blocks, merging their time into the next block (keeps timing), then try dropping time
	for bi := 0; bi < len(best.Blocks) && time.Now().Before(deadline); {
		b := best.Blocks[bi]
		if len(b.Ops) == 0 && len(b.Absent) == 0 && len(b.Evid) == 0 && !b.Restart && b.Crash == "" && len(best.Blocks) > 1 {
			c := clonePlan(best)
			c.Blocks = append(c.Blocks[:bi], c.Blocks[bi+1:]...)
			if v := fails(c); v != nil {
				best, bestV = c, v
				continue
			}
			if bi < len(c.Blocks) {
				c.Blocks[bi].DtNs += b.DtNs
				if v := fails(c); v != nil {
					best, bestV = c, v
					continue
				}
			}
		}
		bi++
	}
	// truncate again
	if bestV.Block+1 < len(best.Blocks) {
		c := clonePlan(best)
		c.Blocks = c.Blocks[:bestV.Block+1]
		if v := fails(c); v != nil {
			best, bestV = c, v
		}
	}
	return best, bestV, tries
}

// ---------------------------------------------------------------------------
// batch driver
// ---------------------------------------------------------------------------

type evidenceFile struct {
	PropertyID  string                 `json:"property_id"`
	Tier        string                 `json:"tier"`
	Seed        int64                  `json:"seed"`
	Level       string                 `json:"level"`
	Coverage    map[string]interface{} `json:"coverage"`
	Assumptions []string               `json:"assumptions"`
	WallS       float64                `json:"wall_s"`
	Violations  int                    `json:"violations"`
}

func baseSeed(tier string) uint64 {
	if s := os.Getenv("VERIF_SEED"); s != "" {
		if v, err := strconv.ParseUint(s, 10, 64); err == nil {
			return v
		}
		if v, err := strconv.ParseInt(s, 10, 64); err == nil {
			return uint64(v)
		}
	}
	if tier == "thorough" {
		return 20240917
	}
	return 1
}

// Check runs the batch of a property and returns the process exit code.
func Check(propID, tier string, runsOverride int, workers int) int {
	spec := Registry[propID]
	if spec == nil {
		fmt.Fprintf(os.Stderr, "unknown property %s\n", propID)
		return 2
	}
	t0 := time.Now()
	base := baseSeed(tier)
	fmt.Printf("exosim check property=%s tier=%s VERIF_SEED=%d\n", propID, tier, base)
	n := spec.QuickRuns
	if tier == "thorough" {
		n = spec.ThoroughRuns
	}
	if runsOverride > 0 {
		n = runsOverride
	}
	if workers <= 0 {
		workers = runtime.NumCPU()
	}
	if workers > n {
		workers = n
	}
	self, err := os.Executable()
	if err != nil {
		fmt.Fprintln(os.Stderr, "cannot find own executable:", err)
		return 2
	}
	// contiguous slices of at most 150 runs per worker process (recycling bounds leaked goroutines)
	type slice struct{ from, to int }
	var slices []slice
	per := 150
	if n/workers < per {
		per = (n + workers - 1) / workers
	}
	for f := 0; f < n; f += per {
		t := f + per
		if t > n {
			t = n
		}
		slices = append(slices, slice{f, t})
	}
	results := make([]*RunResult, n)
	var mu sync.Mutex
	var wg sync.WaitGroup
	sem := make(chan struct{}, workers)
	harnessErr := ""
	for _, sl := range slices {
		wg.Add(1)
		sem <- struct{}{}
		go func(sl slice) {
			defer wg.Done()
			defer func() { <-sem }()
			cmd := exec.Command(self, "worker", "--prop", propID, "--tier", tier, "--seed", strconv.FormatUint(base, 10),
				"--from", strconv.Itoa(sl.from), "--to", strconv.Itoa(sl.to))
			cmd.Stderr = os.Stderr
			stdout, err := cmd.StdoutPipe()
			if err != nil {
				mu.Lock()
				harnessErr = err.Error()
				mu.Unlock()
				return
			}
			if err := cmd.Start(); err != nil {
				mu.Lock()
				harnessErr = err.Error()
				mu.Unlock()
				return
			}
			sc := bufio.NewScanner(stdout)
			sc.Buffer(make([]byte, 1<<20), 1<<28)
			for sc.Scan() {
				var rr RunResult
				if err := json.Unmarshal(sc.Bytes(), &rr); err != nil {
					continue
				}
				mu.Lock()
				if rr.Index >= 0 && rr.Index < n {
					r := rr
					results[rr.Index] = &r
				}
				mu.Unlock()
			}
			if err := cmd.Wait(); err != nil {
				mu.Lock()
				harnessErr = fmt.Sprintf("worker [%d,%d) failed: %v", sl.from, sl.to, err)
				mu.Unlock()
			}
		}(sl)
	}
	wg.Wait()
	if harnessErr != "" {
		fmt.Fprintln(os.Stderr, "HARNESS-ERROR (exit 2):", harnessErr)
		return 2
	}
	// merge in run-index order
	agg := NewStats()
	knownRuns := map[string]int{}
	suppressed := map[string]int{}
	states := map[string]int{}
	distinct := map[string]bool{}
	aborted := map[string]int{}
	nontrivial := 0
	var samples []json.RawMessage
	var viols []*RunResult
	missing := 0
	for _, rr := range results {
		if rr == nil {
			missing++
			continue
		}
		agg.Blocks += rr.Stats.Blocks
		agg.Txs += rr.Stats.Txs
		agg.TxOK += rr.Stats.TxOK
		agg.SimSeconds += rr.Stats.SimSeconds
		for k, v := range rr.Stats.Faults {
			agg.Faults[k] += v
		}
		for k, v := range rr.Stats.Probes {
			agg.Probes[k] += v
		}
		for k, v := range rr.Stats.OpOutcomes {
			agg.OpOutcomes[k] += v
		}
		for k, v := range rr.Stats.KnownHits {
			knownRuns[k]++
			_ = v
		}
		for k := range rr.Stats.Suppressed {
			suppressed[k]++
		}
		for _, s := range rr.States {
			states[s]++
		}
		if rr.Stats.Aborted != "" {
			if strings.HasPrefix(rr.Stats.Aborted, "harness") {
				aborted[firstLine(rr.Stats.Aborted)]++
			} else {
				aborted[normDigits(firstLine(rr.Stats.Aborted))]++
			}
		}
		if rr.NonTrivial && !distinct[rr.PlanHash] {
			distinct[rr.PlanHash] = true
			nontrivial++
		}
		if rr.Sample != "" && len(samples) < 4 {
			samples = append(samples, json.RawMessage(rr.Sample))
		}
		if rr.Violation != nil {
			viols = append(viols, rr)
		}
	}
	if missing > 0 {
		fmt.Fprintf(os.Stderr, "HARNESS-ERROR (exit 2): %d runs produced no result\n", missing)
		return 2
	}
	for k, v := range aborted {
		if strings.HasPrefix(k, "harness") || strings.HasPrefix(k, "genesis") || strings.HasPrefix(k, "initchain") || strings.HasPrefix(k, "start") {
			fmt.Fprintf(os.Stderr, "HARNESS-ERROR (exit 2): %d runs aborted: %s\n", v, k)
			return 2
		}
	}
	// violations: group by class, minimise one per class, match known findings
	known := LoadKnown()
	byClass := map[string][]*RunResult{}
	var classes []string
	for _, v := range viols {
		c := v.Violation.Class()
		if _, ok := byClass[c]; !ok {
			classes = append(classes, c)
		}
		byClass[c] = append(byClass[c], v)
	}
	sort.Strings(classes)
	exit := 0
	newViolations := 0
	minBudget := 45 * time.Second
	if tier == "thorough" {
		minBudget = 4 * time.Minute
	}
	knownSeen := map[string]int{}
	for _, f := range known.Findings {
		if f.Property == propID && f.Status == "open" {
			knownSeen[f.ID] = knownRuns[f.Class]
			note := fmt.Sprintf("hit in %d of %d runs", knownRuns[f.Class], n)
			if knownRuns[f.Class] == 0 {
				note = "its trigger was not reached in this batch"
			}
			fmt.Printf("KNOWN-FINDING: property=%s %s — %s (%s)\n", propID, f.ID, f.Description, note)
		}
	}
	reported := 0
	for _, c := range classes {
		first := byClass[c][0]
		if kf := known.Match(first.Violation); kf != nil {
			continue // cannot happen (known classes never stop a run) but harmless
		}
		newViolations += len(byClass[c])
		if reported >= 5 {
			continue
		}
		reported++
		plan, v, tries := Minimise(spec, first.Seed, *first.Config, *first.Plan, c, minBudget)
		for attempt := 0; v == nil && attempt < 3; attempt++ {
			// a divergence that depends on Go's map iteration order (C08's subject) is not decided by
			// the seed: every attempt samples new orders in the primary and in all replicas
			plan, v, tries = Minimise(spec, first.Seed, *first.Config, *first.Plan, c, minBudget)
		}
		if v == nil {
			if exit == 1 {
				// other classes of this batch were reproduced and reported; this one is named, not hidden
				fmt.Fprintf(os.Stderr, "NOTE: violation class %s of run %d did not reproduce in-process in 4 attempts (order-dependent); not reported, the check already fails\n", c, first.Index)
				continue
			}
			fmt.Fprintf(os.Stderr, "HARNESS-ERROR (exit 2): violation %s of run %d did not reproduce in-process\n", c, first.Index)
			return 2
		}
		rf := ReplayFile{Property: propID, Seed: first.Seed, Tier: tier, Config: *first.Config, Plan: plan, Violation: v,
			Note: fmt.Sprintf("minimised from %d blocks/%d ops to %d blocks/%d ops in %d executions", len(first.Plan.Blocks), first.Plan.NumOps(), len(plan.Blocks), plan.NumOps(), tries)}
		dir := filepath.Join(VerifDir(), "replays")
		_ = os.MkdirAll(dir, 0o755)
		h := sha256.Sum256([]byte(c))
		path := filepath.Join(dir, fmt.Sprintf("%s-%d-%s.json", propID, first.Seed, hex.EncodeToString(h[:4])))
		b, _ := json.MarshalIndent(rf, "", " ")
		if err := os.WriteFile(path, b, 0o644); err != nil {
			fmt.Fprintln(os.Stderr, "HARNESS-ERROR (exit 2): cannot write replay:", err)
			return 2
		}
		// verify in a fresh process
		out, _ := exec.Command(self, "replay", path).CombinedOutput()
		for attempt := 0; !strings.Contains(string(out), "REPRODUCED class="+c) && attempt < 3; attempt++ {
			out, _ = exec.Command(self, "replay", path).CombinedOutput() // order-dependent divergences: new map orders per process
		}
		if !strings.Contains(string(out), "REPRODUCED class="+c) {
			if exit == 1 {
				fmt.Fprintf(os.Stderr, "NOTE: replay of %s (class %s) did not reproduce in 4 fresh processes (order-dependent); not reported, the check already fails\n", path, c)
				continue
			}
			fmt.Fprintf(os.Stderr, "HARNESS-ERROR (exit 2): replay of %s did not reproduce in a fresh process:\n%s\n", path, string(out))
			return 2
		}
		fmt.Printf("violation: %s\n  %s\n", c, strings.ReplaceAll(firstN(v.Detail, 1500), "\n", "\n  "))
		fmt.Printf("VIOLATION property=%s replay=%s\n", propID, path)
		exit = 1
	}
	wall := time.Since(t0).Seconds()
	cov := map[string]interface{}{
		"evaluations":              n,
		"distinct_nontrivial":      nontrivial,
		"rule":                     spec.Rule,
		"samples":                  samples,
		"runs_per_hour":            int(float64(n) / wall * 3600),
		"seeds":                    []uint64{base},
		"simulated_time_s":         agg.SimSeconds,
		"blocks":                   agg.Blocks,
		"txs_delivered":            agg.Txs,
		"txs_succeeded":            agg.TxOK,
		"faults_fired":             agg.Faults,
		"probes":                   agg.Probes,
		"op_outcomes":              agg.OpOutcomes,
		"distinct_abstract_states": len(states),
		"abstract_state_measure":   "distinct ordered pairs of consecutive operation outcomes (kind:ok|fail) inside a block, the first operation paired with the block context (epoch end, evidence, absent votes, first block after a restart), plus the property's own state labels",
		"runs_inconclusive":        aborted,
		"known_findings_hit":       knownSeen,
		"suppressed_after_known_hit": suppressed,
		"components": map[string]interface{}{
			"real": append([]string{"app.ExocoreApp (baseapp, ante chains, all modules, EVM + precompiles, IAVL/rootmulti over MemDB)", "real signed transactions", "CometBFT types.ValidatorSet (H+2 update rule)"}, spec.Real...),
			"stub": append([]string{"consensus engine (header time, proposer, votes, evidence, block store)", "mempool/gossip", "disk (MemDB)", "gateway contract (EOA holding the configured gateway address)"}, spec.Stub...),
		},
		"workers": workers,
	}
	if len(samples) == 0 {
		cov["samples"] = []string{"(no sample captured)"}
	}
	ev := evidenceFile{PropertyID: propID, Tier: tier, Seed: int64(base), Level: spec.Level, Coverage: cov,
		Assumptions: spec.Assumptions, WallS: wall, Violations: newViolations}
	eb, _ := json.MarshalIndent(ev, "", " ")
	_ = os.MkdirAll(filepath.Join(VerifDir(), "evidence"), 0o755)
	if err := os.WriteFile(filepath.Join(VerifDir(), "evidence", propID+".json"), eb, 0o644); err != nil {
		fmt.Fprintln(os.Stderr, "HARNESS-ERROR (exit 2): cannot write evidence:", err)
		return 2
	}
	fmt.Printf("runs=%d nontrivial=%d blocks=%d txs=%d (ok %d) inconclusive=%d violations=%d wall=%.1fs\n", n, nontrivial, agg.Blocks, agg.Txs, agg.TxOK, sumMap(aborted), newViolations, wall)
	if len(aborted) > 0 {
		for _, k := range sortedKeys(aborted) {
			fmt.Printf("  inconclusive x%d: %s\n", aborted[k], k)
		}
	}
	return exit
}

func sumMap(m map[string]int) int {
	t := 0
	for _, v := range m {
		t += v
	}
	return t
}

func firstN(s string, n int) string {
	if len(s) > n {
		return s[:n] + "…"
	}
	return s
}

// Replay re-executes a replay file; prints REPRODUCED class=<class> and returns 1 if the
// recorded violation class occurs again, 0 if the run is clean.
func Replay(path string) int {
	b, err := os.ReadFile(path)
	if err != nil {
		fmt.Fprintln(os.Stderr, err)
		return 2
	}
	var rf ReplayFile
	if err := json.Unmarshal(b, &rf); err != nil {
		fmt.Fprintln(os.Stderr, err)
		return 2
	}
	spec := Registry[rf.Property]
	if spec == nil {
		fmt.Fprintln(os.Stderr, "unknown property", rf.Property)
		return 2
	}
	if rf.Violation != nil {
		TargetClass = rf.Violation.Class()
	}
	r := execCase(spec, rf.Seed, rf.Config, rf.Plan, true)
	if r.Viol == nil {
		fmt.Printf("replay clean (aborted=%q)\n", r.Stats.Aborted)
		return 0
	}
	fmt.Printf("REPRODUCED class=%s\n", r.Viol.Class())
	vb, _ := json.MarshalIndent(r.Viol, "", " ")
	fmt.Println(string(vb))
	if rf.Violation != nil && rf.Violation.Class() != r.Viol.Class() {
		fmt.Printf("note: recorded class was %s\n", rf.Violation.Class())
	}
	fmt.Printf("VIOLATION property=%s replay=%s\n", rf.Property, path)
	return 1
}

// Main is the CLI entry point.
func Main(args []string) int {
	if len(args) == 0 {
		fmt.Println("usage: exosim check --prop <ID> --tier quick|thorough [--runs N] | worker … | replay <file> | selftest | list")
		return 2
	}
	switch args[0] {
	case "check":
		fs := flag.NewFlagSet("check", flag.ContinueOnError)
		prop := fs.String("prop", "", "")
		tier := fs.String("tier", "quick", "")
		runs := fs.Int("runs", 0, "")
		workers := fs.Int("workers", 0, "")
		if err := fs.Parse(args[1:]); err != nil {
			return 2
		}
		if t := os.Getenv("VERIF_TIER"); t != "" && *tier == "" {
			*tier = t
		}
		return Check(*prop, *tier, *runs, *workers)
	case "worker":
		fs := flag.NewFlagSet("worker", flag.ContinueOnError)
		prop := fs.String("prop", "", "")
		tier := fs.String("tier", "quick", "")
		seed := fs.Uint64("seed", 1, "")
		from := fs.Int("from", 0, "")
		to := fs.Int("to", 0, "")
		if err := fs.Parse(args[1:]); err != nil {
			return 2
		}
		spec := Registry[*prop]
		if spec == nil {
			return 2
		}
		// the protocol stream is the real stdout; anything the application itself prints to
		// os.Stdout (debug prints in the repository) is diverted so it cannot corrupt a line
		protocol := os.Stdout
		if dn, err := os.OpenFile(os.DevNull, os.O_WRONLY, 0); err == nil {
			os.Stdout = dn
		}
		w := bufio.NewWriterSize(protocol, 1<<16)
		Worker(spec, *seed, *tier, *from, *to, w)
		w.Flush()
		return 0
	case "replay":
		if len(args) < 2 {
			return 2
		}
		return Replay(args[1])
	case "debug":
		fs := flag.NewFlagSet("debug", flag.ContinueOnError)
		prop := fs.String("prop", "", "")
		tier := fs.String("tier", "quick", "")
		seed := fs.Uint64("seed", 1, "")
		idx := fs.Int("i", 0, "")
		if err := fs.Parse(args[1:]); err != nil {
			return 2
		}
		spec := Registry[*prop]
		sd, cfg, plan := GenCase(spec, *seed, *tier, *idx)
		cb, _ := json.Marshal(cfg)
		fmt.Println("config:", string(cb))
		r := NewRun(spec.ID, sd, cfg, plan, spec.Monitors())
		r.NoPanicGuard = spec.PanicsAreViolations
		r.Verbose = true
		if spec.Exec != nil {
			spec.Exec(r)
		} else {
			r.Execute()
		}
		for _, l := range r.Log {
			fmt.Println(l)
		}
		fmt.Println("aborted:", r.Stats.Aborted)
		if r.Viol != nil {
			vb, _ := json.MarshalIndent(r.Viol, "", " ")
			fmt.Println(string(vb))
		}
		return 0
	case "dreplay":
		DebugReplay(args[1])
		return 0
	case "selftest":
		return SelfTest(args[1:])
	case "list":
		var ids []string
		for id := range Registry {
			ids = append(ids, id)
		}
		sort.Strings(ids)
		for _, id := range ids {
			fmt.Println(id)
		}
		return 0
	}
	fmt.Println("unknown command", args[0])
	return 2
}

func trimHarnessStack(s string) string {
	var out []string
	for _, l := range strings.Split(s, "\n") {
		if strings.Contains(l, "/verif/sim/") {
			out = append(out, strings.TrimSpace(l))
		}
		if len(out) >= 6 {
			break
		}
	}
	return strings.Join(out, " | ")
}
