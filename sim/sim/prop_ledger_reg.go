package sim

import "fmt"

func ledgerConfig(p *PRNG, tier string) Config {
	return SwarmConfig(p, SwarmOpts{})
}

func ledgerConfigNST(p *PRNG, tier string) Config {
	return SwarmConfig(p, SwarmOpts{WithNST: true})
}

func ledgerPlan(o LedgerGenOpts) func(p *PRNG, cfg Config, tier string) Plan {
	return func(p *PRNG, cfg Config, tier string) Plan {
		oo := o
		if tier == "thorough" {
			oo.MinBlocks, oo.MaxBlocks = 40, 140
		}
		// swarm: each fault kind on with probability 1/2 (those enabled for the property)
		oo.DowntimeBursts = o.DowntimeBursts && p.Chance(1, 2)
		oo.Evidence = o.Evidence && p.Chance(1, 2)
		oo.EpochJumps = o.EpochJumps && p.Chance(1, 2)
		oo.Restarts = o.Restarts && p.Chance(1, 2)
		oo.Replays = o.Replays && p.Chance(1, 2)
		oo.NonceCollisions = o.NonceCollisions && p.Chance(1, 2)
		oo.MultiOperatorMsgs = o.MultiOperatorMsgs && p.Chance(1, 2)
		oo.BigAmounts = o.BigAmounts && p.Chance(1, 3)
		oo.DirectSlashes = o.DirectSlashes && p.Chance(1, 2)
		oo.SecondHolder = o.SecondHolder && p.Chance(1, 2)
		plan := GenLedgerPlan(p, cfg, oo)
		if oo.DirectSlashes {
			factors := []string{"0.01", "0.05", "0.3", "0.5", "1"}
			for bi := range plan.Blocks {
				if p.Chance(1, 6) {
					plan.Blocks[bi].Ops = append(plan.Blocks[bi].Ops, Op{K: "kslash", A: 1 + p.Intn(cfg.NOps-1), N: int64([]int{1, 10, 100, 1000}[p.Intn(4)]), S: factors[p.Intn(len(factors))], E: p.Intn(12), D: p.Intn(2)})
				}
			}
		}
		// directed pattern (C07): a validating operator loses its stake, an epoch passes (its key leaves
		// the stored set), then it replaces its key, goes back to the old key and replaces it again
		if cfg.NVals >= 2 && len(plan.Blocks) >= 12 && p.Chance(1, 5) {
			x := 1 + p.Intn(cfg.NVals-1)
			b1 := 1 + p.Intn(3)
			b2 := b1 + 2 + p.Intn(4)
			plan.Blocks[b1].Ops = append(plan.Blocks[b1].Ops, Op{K: "und", A: x, B: 0, C: x, Amt: "all", N: 800001})
			plan.Blocks[b1+1].DtNs = dogfoodEpochSecs(cfg)*1e9 + 1e9
			d1 := 1 + p.Intn(ConsKeyPool-1)
			plan.Blocks[b2].Ops = append(plan.Blocks[b2].Ops, Op{K: "setkey", A: x, D: d1}, Op{K: "setkey", A: x, D: 0}, Op{K: "setkey", A: x, D: 1 + (d1+p.Intn(ConsKeyPool-2))%(ConsKeyPool-1)})
		}
		if oo.SecondHolder {
			for bi := range plan.Blocks {
				if p.Chance(1, 6) {
					plan.Blocks[bi].Ops = append(plan.Blocks[bi].Ops, Op{K: "hold", N: int64(p.Intn(1 << 16))})
					if p.Chance(1, 3) {
						plan.Blocks[bi].Ops = append(plan.Blocks[bi].Ops, Op{K: "hold", N: int64(p.Intn(1 << 16))})
					}
				}
				if p.Chance(1, 5) {
					plan.Blocks[bi].Ops = append(plan.Blocks[bi].Ops, Op{K: "unhold", N: int64(p.Intn(1 << 16))})
				}
			}
			// the second holder lets go of everything before the fault-free epilogue
			plan.Blocks = append(plan.Blocks, Block{DtNs: 1e9, Ops: []Op{{K: "unhold", M: 1}}})
		}
		nst := -1
		for i, a := range cfg.Assets {
			if a.NST {
				nst = i
			}
		}
		if oo.NSTUpdates && nst >= 0 {
			nRefs := cfg.NOps + cfg.NStakers
			lz := int64(5000)
			for bi := range plan.Blocks {
				if p.Chance(1, 5) {
					// positive or negative adjustment of 0.1% .. 150% of the recorded deposit
					plan.Blocks[bi].Ops = append(plan.Blocks[bi].Ops, Op{K: "nstupd", A: p.Intn(nRefs), Amt: fmt.Sprintf("%%%d", []int{1, 50, 300, 700, 1000, 1500}[p.Intn(6)]), M: p.Intn(2)})
				}
				if p.Chance(1, 8) {
					// directed: deposit, delegate half, undelegate it, then a decrease that ends inside the pending record
					s := p.Intn(nRefs)
					o := p.Intn(cfg.NOps)
					lz += 2
					plan.Blocks[bi].Ops = append(plan.Blocks[bi].Ops,
						Op{K: "dep", A: s, B: nst, Amt: "=64000000000000000000", D: p.Intn(3)},
						Op{K: "del", A: s, B: nst, C: o, Amt: "%500", N: lz},
						Op{K: "und", A: s, B: nst, C: o, Amt: "all", N: lz + 1},
						Op{K: "nstupd", A: s, Amt: fmt.Sprintf("%%%d", []int{600, 700, 900}[p.Intn(3)]), M: 1})
				}
			}
		}
		return Epilogue(plan, cfg, int(cfg.UnbondEpochs)+2)
	}
}

var ledgerAssumptions = []string{
	"gateway-only precompile methods are driven by an EOA that holds the configured gateway address (no Solidity gateway)",
	"flows are counted from the operations' own success verdict (tx code, VM error, precompile success flag), not from the store",
	"votes and evidence are delivered only for members of the historical validator set (as a correct CometBFT would)",
}

func init() {
	all := LedgerGenOpts{NSTUpdates: true, DirectSlashes: true, DowntimeBursts: true, Evidence: true, EpochJumps: true, Restarts: true, Replays: true, Unauthorized: true, BigAmounts: true, CheckTx: true}
	Register(&PropSpec{
		ID: "C01", Level: "exploration",
		Rule: "case = swarm config (2-5 operators, 1-4 extra stakers, 1-3 LST assets, native token) x plan of 25-140 blocks with 0-4 ops/block drawn from {deposit, withdraw, delegate, undelegate, associate, dissociate, native delegate/undelegate, opt-in/out, key change, unjail} with state-relative amounts (1 unit, per-mille of position, all, position+1, 2^64..2^255), plus faults {downtime bursts -> slash+jail, equivocation evidence, epoch jumps, restarts, replayed tx bytes, unauthorised callers}; in half of the runs an NST asset with direct native-restaking balance adjustments (+/- 0.1%..150% of the recorded deposit, also directed at a pending undelegation), after which the asset's sum must have moved exactly with the staker's recorded total deposit, by exactly +a for a positive and within [-a, 0] for a negative adjustment; conservation rule evaluated after every BeginBlock, tx and EndBlock; non-trivial = >=1 undelegation completed AND >=1 slash reduced a sum; distinct by (config, plan) hash",
		Assumptions: ledgerAssumptions,
		QuickRuns:   700, ThoroughRuns: 12000,
		GenConfig: ledgerConfigNST, GenPlan: ledgerPlan(all),
		Monitors: func() []Monitor { return []Monitor{&c01Monitor{}} },
		NonTrivial: func(r *Run) bool {
			m := r.Mons[0].(*c01Monitor)
			return m.completed > 0 && m.slashes > 0
		},
	})
	Register(&PropSpec{
		ID: "C02", Level: "exploration",
		Rule: "same workload as C01 biased to share-moving operations (delegate/undelegate/associate/dissociate, directed 'delegate x then undelegate all' pairs) with slashing to skew exchange rates; share identities checked after every step, fairness (|delta redeemable| <= 1 for every other delegator) after every delegation/undelegation, round-trip bound on directed pairs; non-trivial = >=1 round trip checked AND >=1 pool observed at an exchange rate != 1; the pure conversion functions over their whole input domain are NOT covered (not a simulation target)",
		Assumptions: ledgerAssumptions,
		QuickRuns:   700, ThoroughRuns: 12000,
		GenConfig: ledgerConfig,
		GenPlan: ledgerPlan(LedgerGenOpts{DirectSlashes: true, DowntimeBursts: true, Evidence: true, EpochJumps: true, Replays: true, BigAmounts: true,
			W: map[string]int{"dep": 8, "wd": 2, "del": 14, "und": 10, "assoc": 4, "dissoc": 3, "ndel": 3, "nund": 3, "optin": 1, "optout": 1, "setkey": 1, "unjail": 1}}),
		Monitors: func() []Monitor { return []Monitor{&c02Monitor{}} },
		NonTrivial: func(r *Run) bool {
			m := r.Mons[0].(*c02Monitor)
			return m.Trips > 0 && m.Skewed > 0
		},
	})
	Register(&PropSpec{
		ID: "C03", Level: "exploration",
		Rule: "C01 workload biased to undelegation bursts (same block, equal lz nonces, several operators per native message, operators in every lifecycle state) with epoch jumps, slashing while pending, restarts and (in half of the runs) a second holder that places and lifts additional holds on pending records through the delegation keeper's hold-count API; record-set model: one record per accepted undelegation leg, nothing lost/overwritten, release exactly in the EndBlock of the first height >= completion height with hold 0 (holds released by the dogfood pending list of that block), credit == recorded payout, aggregates == sum of live records, acceptance of any amount within the position; non-trivial = >=2 records alive at once AND >=1 record released AND >=1 record held at its completion height",
		Assumptions: ledgerAssumptions,
		QuickRuns:   700, ThoroughRuns: 12000,
		GenConfig: ledgerConfig,
		GenPlan: ledgerPlan(LedgerGenOpts{SecondHolder: true, DirectSlashes: true, DowntimeBursts: true, Evidence: true, EpochJumps: true, Restarts: true, NonceCollisions: true, MultiOperatorMsgs: true,
			W: map[string]int{"dep": 6, "wd": 3, "del": 10, "und": 14, "assoc": 1, "dissoc": 1, "ndel": 5, "nund": 7, "optin": 3, "optout": 2, "setkey": 2, "unjail": 1}}),
		Monitors: func() []Monitor { return []Monitor{&c03Monitor{}} },
		NonTrivial: func(r *Run) bool {
			m := r.Mons[0].(*c03Monitor)
			return m.MaxAlive >= 2 && m.Released > 0 && m.HeldPast > 0
		},
	})
}
